package scratch

import (
	"fmt"
	"os"
	"testing"

	"verifsim/model"
	"verifsim/storesim"
)

func fv(n string, f float64) []model.FieldValue {
	return []model.FieldValue{{Name: n, V: model.Value{K: model.Float, F: f}}}
}

func TestScratch(t *testing.T) {
	for _, idx := range []string{"inmem", "tsi1"} {
		root, _ := os.MkdirTemp("/dev/shm", "scr")
		defer os.RemoveAll(root)
		sim, err := storesim.Open(root, storesim.Opts{Index: idx})
		if err != nil {
			t.Fatal(err)
		}
		sim.CreateShard(1)
		const maxT = 9223372036854775806
		sim.Write(1, []model.Point{
			{M: "m1", Tags: []model.Tag{{K: "a", V: "y"}}, T: maxT, Fields: fv("f", 1)},
			{M: "m1", Tags: []model.Tag{{K: "a", V: "x"}}, T: 5, Fields: fv("f", 1)},
			{M: "m1", Tags: []model.Tag{{K: "a", V: "y"}, {K: "b", V: "p"}}, T: -5, Fields: fv("f", 1)},
			{M: "m1", Tags: []model.Tag{{K: "a", V: "y"}, {K: "b", V: "q"}}, T: 7, Fields: fv("f", 1)},
		})
		if os.Getenv("SNAP") != "" {
			sim.Snapshot(1)
		}
		err = sim.DeleteWhere([]string{"m1"}, fmt.Sprintf("time >= 0 AND time <= %d", int64(maxT)))
		fmt.Println(idx, "delete err", err)
		obs, err := sim.ReadIterators(1, storesim.FullRange, nil)
		fmt.Println(idx, "read", obs, err)
		l, err := sim.List()
		fmt.Println(idx, "list", l.Series, l.TagValues, err)
		sim.Close()
	}
}
