// Package simdisk is the simulated disk: real files in a scratch directory
// plus a durability tracker fed by verifhook events, from which crash images
// are cut. A crash image is a copy of the directory tree taken while the code
// under test is paused inside a hook event, with the loss model applied to the
// copy: bytes written but not yet fsynced may be cut at any offset (optionally
// zero-filled), everything fsynced survives.
package simdisk

import (
	"fmt"
	"io"
	"os"
	"path/filepath"
	"sort"
	"strings"
	"sync"
	"syscall"
)

// Tracker records what is known durable.
type Tracker struct {
	mu     sync.Mutex
	synced map[string]int64 // absolute path -> length known fsynced
	// lossy reports whether a path belongs to a file class whose unsynced
	// bytes the loss model may take.
	Lossy func(path string) bool
}

// NewTracker returns an empty tracker with the tsm1 file classes as lossy.
func NewTracker() *Tracker {
	return &Tracker{synced: map[string]int64{}, Lossy: TSM1Lossy}
}

// TSM1Lossy is the loss-model file classification for a tsdb store: WAL
// segments, TSM files, tombstones and their temporaries. Index and series
// files are copied as they are (treated as durable when written).
func TSM1Lossy(path string) bool {
	for _, suf := range []string{".wal", ".tsm", ".tsm.tmp", ".tombstone", ".tombstone.tmp"} {
		if strings.HasSuffix(path, suf) {
			return true
		}
	}
	return false
}

func statSize(path string) int64 {
	st, err := os.Stat(path)
	if err != nil {
		return 0
	}
	return st.Size()
}

// Handle updates the tracker from a hook event. It returns true when the event
// was one the tracker understands.
func (t *Tracker) Handle(ev string, args ...interface{}) bool {
	t.mu.Lock()
	defer t.mu.Unlock()
	str := func(i int) string {
		if i < len(args) {
			if s, ok := args[i].(string); ok {
				return s
			}
		}
		return ""
	}
	switch ev {
	case "wal.synced", "hh.synced":
		// args: path, logical size. The file's real size is authoritative
		// (a reopened segment's logical size restarts from the stat size).
		t.synced[str(0)] = statSize(str(0))
	case "file.synced":
		t.synced[str(0)] = statSize(str(0))
	case "fs.renamed":
		if v, ok := t.synced[str(0)]; ok {
			t.synced[str(1)] = v
			delete(t.synced, str(0))
		} else {
			delete(t.synced, str(1))
		}
	case "fs.removed", "wal.removed", "hh.removed":
		delete(t.synced, str(0))
	case "wal.recover.truncated":
		// Truncate is a metadata change; recovery does not fsync it. The
		// shorter length is what the next reader sees; keep min.
		if n, ok := args[1].(int64); ok {
			if v, ok2 := t.synced[str(0)]; ok2 && v > n {
				t.synced[str(0)] = n
			}
		}
	default:
		return false
	}
	return true
}

// AdoptTree marks every file under root as durable at its current length
// (used when a store is opened on a crash image: what survived, survived).
func (t *Tracker) AdoptTree(root string) {
	t.mu.Lock()
	defer t.mu.Unlock()
	filepath.Walk(root, func(p string, info os.FileInfo, err error) error {
		if err == nil && info.Mode().IsRegular() {
			t.synced[p] = info.Size()
		}
		return nil
	})
}

// SyncedLen returns the length of path known durable and whether any sync was
// recorded.
func (t *Tracker) SyncedLen(path string) (int64, bool) {
	t.mu.Lock()
	defer t.mu.Unlock()
	v, ok := t.synced[path]
	return v, ok
}

// Cut describes what the loss model did to one file of an image.
type Cut struct {
	Rel      string
	Written  int64
	Synced   int64
	Kept     int64
	ZeroFill int64
}

func (c Cut) String() string {
	return fmt.Sprintf("%s written=%d synced=%d kept=%d zerofill=%d", c.Rel, c.Written, c.Synced, c.Kept, c.ZeroFill)
}

// CopyTree copies the directory tree src to dst (regular files and
// directories only).
func CopyTree(src, dst string) error {
	return filepath.Walk(src, func(p string, info os.FileInfo, err error) error {
		if err != nil {
			if os.IsNotExist(err) {
				return nil // removed while walking (a concurrent helper); the image simply lacks it
			}
			return err
		}
		rel, _ := filepath.Rel(src, p)
		target := filepath.Join(dst, rel)
		if info.IsDir() {
			return os.MkdirAll(target, 0o777)
		}
		if !info.Mode().IsRegular() {
			return nil
		}
		return copySparse(p, target, info.Size())
	})
}

const (
	seekData = 3 // SEEK_DATA
	seekHole = 4 // SEEK_HOLE
)

// copySparse copies a regular file, skipping holes (the series file and the
// tsi1 index preallocate multi-megabyte sparse segments; copying their holes
// byte by byte would dominate the cost of a crash image).
func copySparse(src, dst string, size int64) error {
	in, err := os.Open(src)
	if err != nil {
		if os.IsNotExist(err) {
			return nil
		}
		return err
	}
	defer in.Close()
	out, err := os.Create(dst)
	if err != nil {
		return err
	}
	defer out.Close()
	var off int64
	for off < size {
		data, err := in.Seek(off, seekData)
		if err != nil {
			// ENXIO: no more data after off. Anything else: fall back to a plain copy.
			if errno, ok := underlyingErrno(err); ok && errno == syscall.ENXIO {
				break
			}
			if _, err := in.Seek(off, io.SeekStart); err != nil {
				return err
			}
			if _, err := out.Seek(off, io.SeekStart); err != nil {
				return err
			}
			if _, err := io.Copy(out, in); err != nil {
				return err
			}
			off = size
			break
		}
		hole, err := in.Seek(data, seekHole)
		if err != nil {
			hole = size
		}
		if _, err := in.Seek(data, io.SeekStart); err != nil {
			return err
		}
		if _, err := out.Seek(data, io.SeekStart); err != nil {
			return err
		}
		if _, err := io.CopyN(out, in, hole-data); err != nil && err != io.EOF {
			return err
		}
		off = hole
	}
	return out.Truncate(size)
}

func underlyingErrno(err error) (syscall.Errno, bool) {
	if pe, ok := err.(*os.PathError); ok {
		if en, ok := pe.Err.(syscall.Errno); ok {
			return en, true
		}
	}
	return 0, false
}

// CutImage copies src to dst and applies the loss model to the copy. choose(n)
// returns a plan-decided integer in [0,n). It returns the cuts applied to
// files that had unsynced bytes.
func (t *Tracker) CutImage(src, dst string, choose func(n int) int) ([]Cut, error) {
	if err := CopyTree(src, dst); err != nil {
		return nil, err
	}
	var files []string
	filepath.Walk(dst, func(p string, info os.FileInfo, err error) error {
		if err == nil && info.Mode().IsRegular() {
			files = append(files, p)
		}
		return nil
	})
	sort.Strings(files)
	var cuts []Cut
	for _, p := range files {
		rel, _ := filepath.Rel(dst, p)
		orig := filepath.Join(src, rel)
		if t.Lossy != nil && !t.Lossy(orig) {
			continue
		}
		written := statSize(p)
		synced, _ := t.SyncedLen(orig)
		if synced > written {
			synced = written
		}
		if synced == written {
			continue
		}
		span := int(written - synced)
		// kept is drawn from the boundaries and the interior.
		var kept int64
		switch choose(4) {
		case 0:
			kept = synced
		case 1:
			kept = written
		default:
			kept = synced + int64(choose(span+1))
		}
		// Zero-fill ("the size reached the disk, the data did not") is applied
		// only from the fsynced boundary, which is an entry boundary: zeros
		// after a partially kept entry would be corruption inside an entry,
		// which the properties (truncation of the unsynced suffix) do not
		// quantify over and an unchecksummed log cannot detect.
		var zero int64
		if kept == synced && choose(3) == 0 {
			zero = 1 + int64(choose(int(written-kept)))
		}
		if err := os.Truncate(p, kept); err != nil {
			return nil, err
		}
		if zero > 0 {
			if err := os.Truncate(p, kept+zero); err != nil { // extends with zero bytes
				return nil, err
			}
		}
		cuts = append(cuts, Cut{Rel: rel, Written: written, Synced: synced, Kept: kept, ZeroFill: zero})
	}
	return cuts, nil
}
