// C06 — cluster metadata is deterministic and keeps its invariants.
//
// R replicas of the real meta store state machine (storeFSM, through the
// tag-guarded shim) are fed the same log of commands (hand-encoded protobufs
// with arbitrary, repeated, conflicting and invalid arguments). Half of the
// replicas apply the log "live" with seeded gaps of fake time between
// commands; the other half apply the whole log later (a lagging or restarted
// replica: different wall clock at every apply), and a seeded subset is put
// through Snapshot -> Persist -> Restore at seeded log positions. After every
// command the canonical forms and the Apply results must agree on all
// replicas and the invariants must hold.
package c06

import (
	"bytes"
	"fmt"
	"io"
	"strings"
	"testing"
	"time"

	"github.com/hashicorp/raft"
	"github.com/influxdata/influxdb/services/meta"
	"pgregory.net/rapid"

	"verifsim/core"
	"verifsim/metacmd"
)

type step struct {
	Cmd     metacmd.Cmd
	Gap     time.Duration // fake time before the live replicas apply it
	Restart []int         // lagging replicas to snapshot/restore before applying this command
}

type plan struct {
	Steps    []step
	AutoRP   bool
	Replicas int
}

func genPlan(t *rapid.T) interface{} {
	p := &plan{Replicas: 8, AutoRP: rapid.Bool().Draw(t, "autorp")}
	n := rapid.IntRange(1, 60).Draw(t, "n")
	bias := metacmd.GenBias(t, "bias")
	for i := 0; i < n; i++ {
		l := fmt.Sprintf("c%d", i)
		s := step{Cmd: metacmd.GenCmdBiased(t, l, bias)}
		switch rapid.IntRange(0, 5).Draw(t, l+".gk") {
		case 0:
			s.Gap = time.Duration(rapid.Int64Range(1, int64(20*24*time.Hour)).Draw(t, l+".gap"))
		case 1:
			s.Gap = time.Duration(rapid.Int64Range(1, int64(time.Second)).Draw(t, l+".gap"))
		}
		if rapid.IntRange(0, 9).Draw(t, l+".rs") == 0 {
			s.Restart = []int{rapid.IntRange(4, 7).Draw(t, l+".who")}
		}
		p.Steps = append(p.Steps, s)
	}
	return p
}

type memSink struct {
	bytes.Buffer
	cancelled bool
}

func (s *memSink) ID() string    { return "sim" }
func (s *memSink) Cancel() error { s.cancelled = true; return nil }
func (s *memSink) Close() error  { return nil }

func newFSM(p *plan) *meta.VerifFSM {
	c := meta.NewConfig()
	c.RetentionAutoCreate = p.AutoRP
	return meta.VerifNewFSM(c)
}

func errStr(v interface{}) string {
	if v == nil {
		return ""
	}
	if e, ok := v.(error); ok {
		return e.Error()
	}
	return fmt.Sprint(v)
}

func exec(run *core.Run, pl interface{}) {
	p := pl.(*plan)
	live := p.Replicas / 2
	fsms := make([]*meta.VerifFSM, p.Replicas)
	for i := range fsms {
		fsms[i] = newFSM(p)
	}
	type obs struct {
		canon string
		err   string
	}
	ref := make([]obs, len(p.Steps))
	seen := metacmd.Ids{Groups: map[uint64]bool{}, Shards: map[uint64]bool{}}
	apply := func(f *meta.VerifFSM, i int) (o obs, panicked string) {
		defer func() {
			if r := recover(); r != nil {
				panicked = fmt.Sprint(r)
			}
		}()
		res := f.Apply(&raft.Log{Index: uint64(i + 2), Term: 1, Type: raft.LogCommand, Data: p.Steps[i].Cmd.Data})
		return obs{canon: metacmd.Canonical(f.Data(), false), err: errStr(res)}, ""
	}
	// live replicas
	for i, s := range p.Steps {
		core.Progress()
		if s.Gap > 0 {
			time.Sleep(s.Gap)
		}
		run.Op(metacmd.TypeNames[s.Cmd.Type])
		prev := fsms[0].Data().Clone()
		before := metacmd.Canonical(prev, false)
		for r := 0; r < live; r++ {
			o, pan := apply(fsms[r], i)
			if pan != "" {
				run.Fail("apply-panicked", metacmd.TypeNames[s.Cmd.Type], "step %d %s: Apply panicked on replica %d: %s", i, s.Cmd.Desc, r, pan)
				return
			}
			if r == 0 {
				ref[i] = o
				run.Logf("step %d %s -> %q", i, s.Cmd.Desc, o.err)
				continue
			}
			if o.err != ref[i].err {
				run.Fail("apply-result-differs-between-replicas", "", "step %d %s: replica 0 answered %q, replica %d answered %q", i, s.Cmd.Desc, ref[i].err, r, o.err)
				return
			}
			if o.canon != ref[i].canon {
				run.Fail("replicas-diverged", metacmd.TypeNames[s.Cmd.Type], "step %d %s: replica %d differs from replica 0 (same log, same clock):\n%s", i, s.Cmd.Desc, r, diff(ref[i].canon, o.canon))
				return
			}
		}
		if ref[i].err != "" {
			run.Probe("command-rejected")
			if ref[i].canon != before {
				run.Fail("rejected-command-changed-state", metacmd.TypeNames[s.Cmd.Type], "step %d %s was rejected (%s) but changed the metadata:\n%s", i, s.Cmd.Desc, ref[i].err, diff(before, ref[i].canon))
				return
			}
		} else if ref[i].canon != before {
			run.Probe("command-changed-state")
		}
		if cls, det := metacmd.CheckInvariants(prev, fsms[0].Data(), &seen); cls != "" {
			run.Fail(cls, metacmd.TypeNames[s.Cmd.Type], "after step %d %s: %s", i, s.Cmd.Desc, det)
			return
		}
	}
	// lagging replicas: the whole log later, with snapshot/restore cycles
	time.Sleep(40 * 24 * time.Hour)
	for i, s := range p.Steps {
		for r := live; r < p.Replicas; r++ {
			for _, who := range s.Restart {
				if who != r {
					continue
				}
				snap, err := fsms[r].Snapshot()
				if err != nil {
					run.Fail("snapshot-failed", "", "replica %d: Snapshot: %v", r, err)
					return
				}
				sink := &memSink{}
				if err := snap.Persist(sink); err != nil {
					run.Fail("snapshot-failed", "", "replica %d: Persist: %v", r, err)
					return
				}
				nf := newFSM(p)
				if err := nf.Restore(io.NopCloser(bytes.NewReader(sink.Bytes()))); err != nil {
					run.Fail("restore-failed", "", "replica %d: Restore: %v", r, err)
					return
				}
				fsms[r] = nf
				run.Probe("replica-restarted-from-snapshot")
				run.Fault("restart-via-snapshot")
			}
			o, pan := apply(fsms[r], i)
			if pan != "" {
				run.Fail("apply-panicked", metacmd.TypeNames[s.Cmd.Type], "step %d %s: Apply panicked on lagging replica %d: %s", i, s.Cmd.Desc, r, pan)
				return
			}
			if o.err != ref[i].err {
				// Groups marked deleted are pruned by the wall clock of the
				// replica that applies PruneShardGroups, so whether a deleted
				// group is still listed differs between replicas by design of
				// the property (it speaks of live groups only). Deleting such
				// a group again answers nil where it lingers and "not found"
				// where it was pruned; the live state must still agree.
				if s.Cmd.Type == metacmd.DeleteShardGroup && o.canon == ref[i].canon &&
					(o.err == "" && ref[i].err == "shard group not found" || o.err == "shard group not found" && ref[i].err == "") {
					run.Probe("deleted-group-pruned-on-one-clock-only")
					continue
				}
				run.Fail("apply-result-differs-between-replicas", "", "step %d %s: live replica answered %q, lagging/restarted replica %d answered %q", i, s.Cmd.Desc, ref[i].err, r, o.err)
				return
			}
			if o.canon != ref[i].canon {
				site := metacmd.TypeNames[s.Cmd.Type]
				if metacmd.EpochTruncation(fsms[0].Data()) {
					site = "after-truncation-at-the-unix-epoch"
				}
				run.Fail("replicas-diverged", site, "step %d %s: lagging/restarted replica %d (applies the log later, on another clock) differs from the live replica:\n%s", i, s.Cmd.Desc, r, diff(ref[i].canon, o.canon))
				return
			}
		}
	}
	run.NonTrivial = run.Probes["command-changed-state"] > 2
	run.Digest = fmt.Sprint(len(ref[len(ref)-1].canon))
}

func diff(a, b string) string {
	al, bl := strings.Split(a, "\n"), strings.Split(b, "\n")
	var out []string
	am := map[string]bool{}
	for _, l := range al {
		am[l] = true
	}
	bm := map[string]bool{}
	for _, l := range bl {
		bm[l] = true
	}
	for _, l := range al {
		if !bm[l] {
			out = append(out, "- "+l)
		}
	}
	for _, l := range bl {
		if !am[l] {
			out = append(out, "+ "+l)
		}
	}
	if len(out) > 12 {
		out = append(out[:12], "…")
	}
	return strings.Join(out, "\n")
}

func describe(pl interface{}) interface{} {
	p := pl.(*plan)
	var s []string
	for _, st := range p.Steps {
		d := st.Cmd.Desc
		if st.Gap > 0 {
			d = fmt.Sprintf("+%v %s", st.Gap, d)
		}
		if len(st.Restart) > 0 {
			d += fmt.Sprintf(" [restart replica %v before]", st.Restart)
		}
		s = append(s, d)
	}
	return map[string]interface{}{"retention_autocreate": p.AutoRP, "replicas": p.Replicas, "log": s}
}

func TestC06(t *testing.T) {
	core.Main(t, core.Harness{
		Property:       "C06",
		Gen:            genPlan,
		Exec:           exec,
		Bubble:         true,
		Describe:       describe,
		Tier:           "A",
		RequiredProbes: []string{"command-rejected", "command-changed-state", "replica-restarted-from-snapshot"},
		Real:           []string{"meta storeFSM.Apply / Snapshot / Persist / Restore", "meta.Data (all apply* paths)", "protobuf unmarshalling of commands"},
		Stub:           []string{"raft (the log is handed to the state machine directly; consensus is C07's subject)", "legacy CreateNode/RemovePeer/SetData commands are not generated (they need a live raft state)"},
		Assumptions: []string{
			"Go's map iteration order is not seedable: a tie broken by map order shows as a divergence between replicas with probability >= 1-2^-3 per tie with 4+4 replicas; the replay re-runs the same log",
			"commands are encoded by the harness' own protobuf writer from meta.proto",
		},
		Rule: "a run = a log of 1-60 commands of all kinds with arbitrary/repeated/conflicting/invalid arguments applied on 8 replicas: 4 live with seeded fake-time gaps, 4 later on another clock with seeded snapshot/restore cycles; after every command canonical forms and Apply results must agree and the invariants (disjoint live groups, unique never-reused ids, owner count/spread, no removed owners, rejected => unchanged) must hold; non-trivial = more than two commands changed the state",
	})
}
