// C04 — hinted handoff queue loses nothing and keeps order.
//
// Mode "queue": the real hh queue (through the tag-guarded export shim) is
// driven by a seeded sequence of appends (sizes around the segment limit),
// deliveries (Current+Advance as NodeProcessor.SendWrite does), Empty checks,
// segment-size changes, age purges (fake clock, file times stamped by the
// harness) and close/reopen. At the queue's write events a crash image of the
// directory is crafted for seeded cuts of the in-flight write (the write
// overwrites the old footer in place and extends the file; until the
// following Sync returns any prefix of it may be what reached the disk). Every
// image is opened by a fresh queue and drained, further operations follow.
//
// Mode "processor": the real NodeProcessor runs on the fake clock against a
// simulated target (ok / retryable error / lost ack / permanent rejection)
// and a meta stub (node present / removed).
package c04

import (
	"bytes"
	"encoding/binary"
	"errors"
	"fmt"
	"io"
	"os"
	"path/filepath"
	"strings"
	"sync"
	"testing"
	"time"

	"github.com/influxdata/influxdb/models"
	"github.com/influxdata/influxdb/pkg/verifhook"
	"github.com/influxdata/influxdb/services/hh"
	"github.com/influxdata/influxdb/services/meta"
	"pgregory.net/rapid"

	"verifsim/core"
	"verifsim/simdisk"
	"verifsim/storesim"
)

type op struct {
	Kind string // append, send, send-window, current, setmax, purge, reopen, sleep
	Size int
	// send-window: blocks appended after the sender has found the queue
	// exhausted and before it skips the exhausted segment
	Sizes []int
	Max  int64
	Age  int // seconds
	// processor mode
	NPoints int
	Outcome string // target outcome script entry
}

type plan struct {
	Mode    string
	MaxSeg  int64
	MaxSize int64
	Phases  [][]op
	Tape    []uint64
	// queue mode: where crash images fall - 0 = at two write events in three
	// from the start of a phase (dense, early), 1 = about one in six, 2 =
	// about one in twenty (spread over the whole phase)
	ImageMode int
	Script  []string // processor mode: outcome per WriteShardBinary call
	Removed []int    // processor mode: fake seconds at which the node is removed/restored (toggle)
}

func genOp(t *rapid.T, label string, maxSeg int64, purge bool) op {
	k := rapid.IntRange(0, 19).Draw(t, label+".kind")
	switch {
	case k < 8:
		// sizes around the segment limit
		var sz int
		switch rapid.IntRange(0, 5).Draw(t, label+".sk") {
		case 0:
			sz = rapid.IntRange(0, 8).Draw(t, label+".sz")
		case 5:
			// the largest blocks a fresh segment admits (the admission test
			// counts the footer but not the block's own length prefix)
			sz = int(maxSeg) - 8 - rapid.IntRange(0, 3).Draw(t, label+".d")
		case 1:
			sz = int(maxSeg) - 8 - 8 - rapid.IntRange(-3, 3).Draw(t, label+".d")
		case 2:
			sz = int(maxSeg)/2 - rapid.IntRange(-3, 3).Draw(t, label+".d")
		default:
			sz = rapid.IntRange(1, int(maxSeg)).Draw(t, label+".sz")
		}
		if sz < 4 {
			sz = 4 // the block id is embedded so that every block is unique
		}
		return op{Kind: "append", Size: sz}
	case k < 12:
		return op{Kind: "send"}
	case k < 14:
		o := op{Kind: "send-window", Sizes: []int{}}
		for j, n := 0, rapid.IntRange(0, 3).Draw(t, label+".wn"); j < n; j++ {
			var sz int
			switch rapid.IntRange(0, 3).Draw(t, fmt.Sprintf("%s.w%dk", label, j)) {
			case 0:
				sz = rapid.IntRange(4, 12).Draw(t, fmt.Sprintf("%s.w%d", label, j))
			case 1:
				sz = int(maxSeg) - 16 - rapid.IntRange(0, 3).Draw(t, fmt.Sprintf("%s.w%d", label, j))
			default:
				sz = rapid.IntRange(4, int(maxSeg)).Draw(t, fmt.Sprintf("%s.w%d", label, j))
			}
			if sz < 4 {
				sz = 4
			}
			o.Sizes = append(o.Sizes, sz)
		}
		return o
	case k < 15:
		if rapid.IntRange(0, 2).Draw(t, label+".hk") == 0 {
			return op{Kind: "current"}
		}
		if rapid.Bool().Draw(t, label+".hr") {
			return op{Kind: "hold"} // nine more writers enter Append: appends are buffered from now on
		}
		return op{Kind: "release"}
	case k < 16:
		return op{Kind: "setmax", Max: rapid.Int64Range(24, 400).Draw(t, label+".max")}
	case k < 18:
		return op{Kind: "reopen"}
	default:
		if purge {
			if rapid.Bool().Draw(t, label+".pk") {
				return op{Kind: "sleep", Age: rapid.IntRange(1, 30).Draw(t, label+".secs")}
			}
			return op{Kind: "purge", Age: rapid.IntRange(0, 40).Draw(t, label+".age")}
		}
		return op{Kind: "send"}
	}
}

func genPlan(t *rapid.T) interface{} {
	p := &plan{}
	if rapid.IntRange(0, 3).Draw(t, "mode") == 0 {
		p.Mode = "processor"
		n := rapid.IntRange(1, 12).Draw(t, "nops")
		var ops []op
		for i := 0; i < n; i++ {
			switch rapid.IntRange(0, 6).Draw(t, fmt.Sprintf("op%d.kind", i)) {
			case 6:
				// a write that lands while the processor, having found the
				// queue empty, is about to skip the exhausted segment
				// (one to three separate writes: the first may still fit the
				// exhausted segment while a later one opens the next)
				o := op{Kind: "write-in-empty-window", NPoints: rapid.IntRange(1, 3).Draw(t, fmt.Sprintf("op%d.np", i))}
				for j, n := 0, rapid.IntRange(0, 2).Draw(t, fmt.Sprintf("op%d.more", i)); j < n; j++ {
					o.Sizes = append(o.Sizes, rapid.IntRange(1, 5).Draw(t, fmt.Sprintf("op%d.np%d", i, j+1)))
				}
				ops = append(ops, o)
			case 0, 1, 2:
				ops = append(ops, op{Kind: "write", NPoints: rapid.IntRange(1, 5).Draw(t, fmt.Sprintf("op%d.np", i))})
			case 3:
				ops = append(ops, op{Kind: "sleep", Age: rapid.IntRange(1, 25).Draw(t, fmt.Sprintf("op%d.secs", i))})
			case 4:
				ops = append(ops, op{Kind: "toggle-node"})
			default:
				ops = append(ops, op{Kind: "reopen"})
			}
		}
		p.Phases = [][]op{ops}
		// segment size of the processor's queue: the default (10 MiB: one
		// segment for the whole run) or small enough for these writes to
		// span several segments
		p.MaxSeg = rapid.SampledFrom([]int64{0, 260, 400, 700}).Draw(t, "procseg")
		p.Script = rapid.SliceOfN(rapid.SampledFrom([]string{"ok", "ok", "ok", "retry", "lostack", "reject"}), 40, 40).Draw(t, "script")
		return p
	}
	p.Mode = "queue"
	p.MaxSeg = rapid.Int64Range(24, 300).Draw(t, "maxseg")
	p.MaxSize = rapid.SampledFrom([]int64{1 << 40, 1 << 40, 2000, 600}).Draw(t, "maxsize")
	purge := rapid.IntRange(0, 3).Draw(t, "purge") == 0
	depth := rapid.IntRange(1, 3).Draw(t, "depth")
	p.ImageMode = rapid.IntRange(0, 2).Draw(t, "image_mode")
	for d := 0; d < depth; d++ {
		max := 25
		if d > 0 {
			max = 6
		}
		n := rapid.IntRange(1, max).Draw(t, fmt.Sprintf("phase%d.n", d))
		var ops []op
		for i := 0; i < n; i++ {
			ops = append(ops, genOp(t, fmt.Sprintf("p%d.op%d", d, i), p.MaxSeg, purge))
		}
		p.Phases = append(p.Phases, ops)
	}
	p.Tape = storesim.GenTape(t, 300, "tape")
	return p
}

// ---- queue mode ----

type block struct {
	id       int
	data     []byte
	appended time.Time
	// buffered: acknowledged on the buffered path (ten or more writers inside
	// Append) and not known to have been flushed to the segment file yet
	buffered bool
}

type qmodel struct {
	all     []block // every accepted block in order
	head    int     // index of the first pending block
	purges  []purge
	written int64 // bytes ever appended (for the size-limit oracle)
	nseg    int
}

type purge struct {
	at     time.Time
	cutoff time.Time
}

func (m *qmodel) clone() *qmodel {
	c := *m
	c.all = append([]block(nil), m.all...)
	c.purges = append([]purge(nil), m.purges...)
	return &c
}

// droppable reports whether the age limit can explain the disappearance of b.
func (m *qmodel) droppable(b block) bool {
	for _, p := range m.purges {
		if !p.at.Before(b.appended) && !b.appended.After(p.cutoff.Add(time.Second)) {
			return true
		}
	}
	return false
}

func mkBlock(id, size int) []byte {
	b := make([]byte, size)
	for i := range b {
		b[i] = byte('a' + (id+i)%23)
	}
	if size >= 4 {
		binary.BigEndian.PutUint32(b, uint32(id))
	}
	return b
}

type qimage struct {
	dir          string
	model        *qmodel
	inflightApp  *block // append that had not returned
	inflightAdv  bool   // an Advance had not returned
	inflightKind string
	event        string
	maxSeg       int64
	// torn: the image holds a partially persisted append write (0 < cut < n),
	// or descends from such an image.
	torn bool
	// tornBytes: bytes of partially persisted appends that stay in segment
	// files of this image (and its ancestors) without being a block; they
	// count towards the size limit until their segment is trimmed.
	tornBytes int64
}

type qrunner struct {
	run  *core.Run
	p    *plan
	tape *storesim.Tape
	nimg int
	next int // next block id
}

func (r *qrunner) phase(dir string, depth int, m *qmodel, recovered *qimage, label string, maxSeg int64) {
	run := r.run
	if run.Failed() {
		return
	}
	core.Progress()
	var images []*qimage
	budget := []int{8, 3, 0}[depth]
	var curApp *block
	curAdv := false
	curKind := ""
	opIdx := 0 // index of the operation in flight, for the reach probes
	var pre []byte
	var preOff int64
	var preN int
	var prePath string
	stamp := func(path string) {
		now := time.Now()
		os.Chtimes(path, now, now) // file times follow the simulated clock
	}
	// maybeApp: an append that was in flight at an earlier crash and whose fate
	// is not known yet; crash images cut before it is resolved inherit it.
	var maybeApp *block
	if recovered != nil {
		maybeApp = recovered.inflightApp
	}
	// maybeAdv: an Advance that was in flight at an earlier crash and is not
	// resolved yet (nothing has been delivered since).
	maybeAdv := recovered != nil && recovered.inflightAdv
	tornCtx := recovered != nil && recovered.torn
	var tornBytes int64
	if recovered != nil {
		tornBytes = recovered.tornBytes
	}
	// fail records a violation; everything observed on a store recovered
	// from a torn append write is attributed to that site.
	fail := func(class, site, format string, args ...interface{}) {
		if tornCtx {
			site = "after-torn-append-write"
		}
		run.Fail(class, site, format, args...)
	}
	mkImage := func(ev, path string, content []byte, torn bool) {
		r.nimg++
		idir := filepath.Join(run.Scratch, fmt.Sprintf("img%d", r.nimg))
		if err := simdisk.CopyTree(dir, idir); err != nil {
			fail("harness-error", "", "copy image: %v", err)
			return
		}
		rel, _ := filepath.Rel(dir, path)
		if content != nil {
			os.WriteFile(filepath.Join(idir, rel), content, 0o600)
		}
		filepath.Walk(idir, func(p string, info os.FileInfo, err error) error {
			if err == nil && info.Mode().IsRegular() {
				stamp(p)
			}
			return nil
		})
		im := &qimage{dir: idir, model: m.clone(), inflightAdv: curAdv || maybeAdv, inflightKind: curKind, event: ev, torn: torn || tornCtx, maxSeg: maxSeg, tornBytes: tornBytes}
		if torn && curApp != nil {
			im.tornBytes += int64(len(curApp.data)) + 8
		}
		if curApp != nil {
			b := *curApp
			im.inflightApp = &b
		} else if maybeApp != nil {
			b := *maybeApp
			im.inflightApp = &b
		}
		images = append(images, im)
		run.Fault("crash")
		if opIdx >= 10 {
			run.Probe("crash-after-ten-or-more-operations")
		}
		if len(m.all)-m.head >= 4 {
			run.Probe("crash-with-four-or-more-blocks-pending")
		}
	}
	handler := func(ev string, args ...interface{}) {
		path, _ := args[0].(string)
		// value 0 (what shrinking converges to) means "no image here"
		takeImage := func() bool {
			switch v := r.tape.Next(); r.p.ImageMode {
			case 1:
				return v%6 == 1
			case 2:
				return v%20 == 1
			default:
				return v%3 != 0
			}
		}
		switch ev {
		case "hh.write.begin":
			pre, _ = os.ReadFile(path)
			prePath = path
			preOff, _ = args[1].(int64)
			preN, _ = args[2].(int)
			run.Logf("%s ev %s %s off=%d n=%d", label, ev, filepath.Base(path), preOff, preN)
		case "hh.write.end":
			stamp(path)
			run.Logf("%s ev %s %s", label, ev, filepath.Base(path))
			if budget <= 0 || path != prePath || !takeImage() {
				return
			}
			budget--
			post, _ := os.ReadFile(path)
			// which prefix of the write reached the disk
			var k int
			choice := r.tape.Choose(5)
			if preN == 8 && choice >= 2 {
				choice %= 2 // an 8-byte footer rewrite is taken to be atomic
			}
			switch choice {
			case 0:
				k = 0
			case 1:
				k = preN
			case 2:
				k = r.tape.Choose(9) // inside the overwritten footer / first length prefix
			case 3:
				k = preN - r.tape.Choose(9) // inside the new footer
			default:
				k = r.tape.Choose(preN + 1)
			}
			if k < 0 {
				k = 0
			}
			if k > preN {
				k = preN
			}
			var img []byte
			img = append(img, pre[:min64(preOff, int64(len(pre)))]...)
			img = append(img, post[preOff:preOff+int64(k)]...)
			if int64(len(pre)) > preOff+int64(k) {
				img = append(img, pre[preOff+int64(k):]...)
			}
			if k < preN {
				run.Fault("torn-write")
			}
			run.Logf("%s   image%d: %s write of %d bytes at %d cut after %d (in flight: %s)", label, r.nimg+1, filepath.Base(path), preN, preOff, k, curKind)
			mkImage(fmt.Sprintf("%s cut %d/%d", ev, k, preN), path, img, k > 0 && k < preN)
		case "hh.truncated":
			run.Logf("%s ev %s %s", label, ev, filepath.Base(path))
			if budget > 0 && takeImage() {
				budget--
				mkImage(ev, path, nil, false)
			}
		case "hh.synced":
			stamp(path)
		case "hh.removed":
			run.Logf("%s ev %s %s", label, ev, filepath.Base(path))
			if budget > 0 && takeImage() {
				budget--
				mkImage(ev, path, nil, false)
				run.Probe("crash-after-head-trim")
			}
		}
	}
	verifhook.SetPoint(handler)
	defer verifhook.SetPoint(nil)

	open := func() *hh.VerifQueue {
		q, err := hh.VerifNewQueue(dir, r.p.MaxSize, 1024)
		if err != nil {
			fail("harness-error", "", "newQueue: %v", err)
			return nil
		}
		if err := q.Open(); err != nil {
			fail("queue-open-failed", "", "%s: queue.Open: %v", label, err)
			return nil
		}
		for _, b := range m.all[m.head:] {
			if int64(len(b.data))+16 > maxSeg {
				maxSeg = int64(len(b.data)) + 16
			}
		}
		if err := q.SetMaxSegmentSize(maxSeg); err != nil {
			fail("harness-error", "", "SetMaxSegmentSize: %v", err)
		}
		return q
	}
	curKind = "open"
	q := open()
	curKind = ""
	if q == nil {
		return
	}
	defer func() {
		if q != nil {
			q.Close()
		}
	}()

	// deliver mimics NodeProcessor.SendWrite: Current; on EOF advance (skip to
	// the next segment); on another error truncate the corrupt block.
	var appendBlock func(i int, size int)
	// window: sizes of the blocks appended between the first io.EOF from
	// Current and the call that skips the exhausted segment, which then is
	// TrimExhausted as in NodeProcessor.SendWrite (nil: Advance, no window)
	var window []int
	deliver := func(i int, skipHeadOK bool, mayAppend *block) (delivered bool) {
		// every attempt moves past at most one exhausted or empty segment (a
		// refused over-size append leaves an empty segment behind), so the
		// bound counts segments
		for try, tries := 0, q.SegmentCount()+3+len(window); try < tries; try++ {
			b, err := q.Current()
			if err == io.EOF {
				if window != nil {
					for _, sz := range window {
						appendBlock(i, sz)
						run.Probe("append-between-eof-and-trim")
					}
					window = window[:0]
					curKind, curAdv = "advance", false
					q.TrimExhausted()
					curKind = ""
					continue
				}
				curKind, curAdv = "advance", false
				q.Advance()
				curKind = ""
				continue
			}
			if err != nil {
				run.Probe("corrupt-block-truncated")
				if terr := q.Truncate(); terr != nil && terr != io.EOF {
					run.Logf("%s op%d truncate: %v", label, i, terr)
				}
				continue
			}
			// find b in the model
			newHead := m.head
			idx := -1
			for j := m.head; j < len(m.all); j++ {
				if bytes.Equal(m.all[j].data, b) {
					idx = j
					break
				}
			}
			switch {
			case idx == -1 && mayAppend != nil && bytes.Equal(mayAppend.data, b):
				run.Probe("inflight-append-survived")
				maybeApp = nil
				m.written += int64(len(mayAppend.data)) + 8 // it occupies the segment like any accepted block
				m.all = append(m.all, *mayAppend)
				m.head = len(m.all) - 1
				newHead = len(m.all)
				goto advance
			case idx == -1:
				fail("delivered-unknown-block", "", "%s op%d: Current returned a %d-byte block that is not pending (first bytes %x)", label, i, len(b), b[:min(len(b), 12)])
				return false
			default:
				for j := m.head; j < idx; j++ {
					if skipHeadOK && j == m.head {
						// the Advance in flight at the crash had already moved past this block
						run.Probe("inflight-advance-persisted")
						continue
					}
					if recovered != nil && m.all[j].buffered {
						// acknowledged on the buffered path, still in memory at the crash
						fail("block-lost-after-crash", "acknowledged-on-buffered-path-not-yet-flushed", "%s op%d: block #%d had been acknowledged while ten or more writers were inside Append (buffered path) and was not flushed at the crash", label, i, m.all[j].id)
						if run.Failed() {
							return false
						}
						continue
					}
					if !m.droppable(m.all[j]) {
						fail("block-lost", "", "%s op%d: block #%d (%d bytes, accepted earlier) was skipped: block #%d delivered first and no documented discard reason applies", label, i, m.all[j].id, len(m.all[j].data), m.all[idx].id)
						return false
					}
					run.Probe("block-dropped-by-age")
				}
				m.head = idx // the delivered block stays pending until Advance has returned
				newHead = idx + 1
			}
		advance:
			curKind, curAdv = "advance", true
			if err := q.Advance(); err != nil {
				fail("advance-failed", "", "%s op%d: Advance: %v", label, i, err)
			}
			curKind, curAdv = "", false
			m.head = newHead
			return true
		}
		return false
	}
	pendingMust := func() int {
		n := 0
		for j := m.head; j < len(m.all); j++ {
			if !m.droppable(m.all[j]) {
				n++
			}
		}
		return n
	}
	// pendingReadable: pending blocks a reader can be expected to see now
	// (blocks still in the write buffer are not in the file yet)
	pendingReadable := func() int {
		n := 0
		for j := m.head; j < len(m.all); j++ {
			if !m.droppable(m.all[j]) && !m.all[j].buffered {
				n++
			}
		}
		return n
	}
	flushedAll := func() {
		for j := range m.all {
			m.all[j].buffered = false
		}
	}
	held := 0
	checkEmpty := func(i int, after string) {
		if run.Failed() {
			return
		}
		e := q.Empty()
		must := pendingMust()
		total := len(m.all) - m.head
		if e && must > 0 {
			fail("empty-while-pending", after, "%s op%d after %s: Empty()=true but %d accepted blocks are pending", label, i, after, must)
		} else if !e && total == 0 {
			fail("nonempty-while-nothing-pending", after, "%s op%d after %s: Empty()=false but nothing is pending", label, i, after)
		}
	}

	if recovered != nil {
		// Drain the recovered queue completely and compare with what must be there.
		for n := 0; n < len(m.all)+8; n++ {
			if !deliver(-1, maybeAdv, maybeApp) {
				break
			}
			if run.Failed() {
				return
			}
			maybeAdv = false
		}
		if maybeAdv && m.head < len(m.all) && !m.all[m.head].buffered && pendingReadable() == 1 {
			// (blocks behind it that were only in the write buffer are judged below)
			m.head++
		} else if maybeAdv && m.head < len(m.all) && pendingMust() == 1 && len(m.all)-m.head == 1 {
			// only the block whose Advance was in flight remained and it was consumed
			m.head++
		}
		maybeAdv = false
		if !run.Failed() && pendingMust() > 0 && pendingReadable() == 0 {
			// everything missing had been acknowledged on the buffered path
			// and was still in memory at the crash
			fail("block-lost-after-crash", "acknowledged-on-buffered-path-not-yet-flushed", "%s: after restart %d accepted blocks are gone; all of them were acknowledged while ten or more writers were inside Append (buffered path) and had not been flushed at the crash", label, pendingMust())
			return
		}
		if !run.Failed() && pendingMust() > 0 {
			fail("block-lost-after-crash", recovered.inflightKind, "%s: after restart the queue stops delivering with %d accepted blocks still undelivered (in flight at the crash: %s)", label, pendingMust(), recovered.inflightKind)
			return
		}
		maybeApp = nil // drained: the in-flight append is either delivered or gone
		run.Probe("image-drained")
		checkEmpty(-1, "drain")
	}

	var ops []op
	if depth < len(r.p.Phases) {
		ops = r.p.Phases[depth]
	}
	appendBlock = func(i int, size int) {
		r.next++
		b := block{id: r.next, data: mkBlock(r.next, size), appended: time.Now()}
		curApp, curKind = &b, "append"
		bufferedPath := q.LimiterLen() >= 9 // with this writer: ten inside Append
		err := q.Append(b.data)
		curApp, curKind = nil, ""
		switch {
		case err == nil:
			if bufferedPath {
				b.buffered = true
				run.Probe("append-on-buffered-path")
			} else {
				flushedAll() // an unbuffered append writes the whole buffer out
			}
			m.all = append(m.all, b)
			m.written += int64(len(b.data)) + 8
			run.Probe("append-accepted")
		case errors.Is(err, hh.ErrQueueFull):
			// legal only if the size limit can be the reason: even everything ever appended plus footers would exceed it
			slack := int64(0)
			if maybeApp != nil {
				slack = int64(len(maybeApp.data)) + 8
			}
			if int64(8*(q.SegmentCount()+1))+m.written+slack+tornBytes+int64(len(b.data))+8 <= r.p.MaxSize {
				fail("append-refused-without-reason", "", "%s op%d: ErrQueueFull although everything ever appended (%d bytes) plus this block (%d) fits max size %d", label, i, m.written, len(b.data), r.p.MaxSize)
			}
			run.Probe("append-refused-size-limit")
		case errors.Is(err, hh.ErrSegmentFull):
			if int64(len(b.data))+16 <= maxSeg {
				fail("append-refused-without-reason", "", "%s op%d: ErrSegmentFull for a %d-byte block, segment limit %d", label, i, len(b.data), maxSeg)
			}
			run.Probe("append-refused-too-large")
		default:
			fail("append-failed", "", "%s op%d: Append(%d bytes): %v", label, i, len(b.data), err)
		}
	}
	for i, o := range ops {
		if run.Failed() {
			return
		}
		core.Progress()
		run.Op(o.Kind)
		run.Logf("%s op%d %s size=%d", label, i, o.Kind, o.Size)
		opIdx = i
		switch o.Kind {
		case "append":
			appendBlock(i, o.Size)
			checkEmpty(i, "append")
		case "send-window":
			pend := len(m.all) - m.head
			window = append([]int{}, o.Sizes...)
			ok := deliver(i, false, nil)
			window = nil
			if !ok && !run.Failed() && pendingReadable() > 0 {
				fail("pending-block-not-delivered", "", "%s op%d: %d blocks pending but one send attempt per segment (+3) delivered nothing", label, i, pend)
			}
			checkEmpty(i, "advance")
		case "send":
			pend := len(m.all) - m.head
			ok := deliver(i, false, nil)
			if !ok && !run.Failed() && pendingReadable() > 0 {
				fail("pending-block-not-delivered", "", "%s op%d: %d blocks pending but one send attempt per segment (+3) delivered nothing", label, i, pend)
			}
			checkEmpty(i, "advance")
		case "current":
			b, err := q.Current()
			if err == nil && m.head < len(m.all) && !m.all[m.head].buffered && !bytes.Equal(b, m.all[m.head].data) && pendingMust() == len(m.all)-m.head {
				fail("current-not-head", "", "%s op%d: Current returned a block that is not the oldest pending one", label, i)
			}
			checkEmpty(i, "current")
		case "setmax":
			// SetMaxSegmentSize has no production caller; the harness needs it to get
			// small segments. Never lower the limit below a block already accepted
			// (current() would reject that block as out of range: an artefact).
			for _, b := range m.all {
				if int64(len(b.data))+16 > o.Max {
					o.Max = int64(len(b.data)) + 16
				}
			}
			curKind = "setmax"
			if err := q.SetMaxSegmentSize(o.Max); err != nil {
				fail("setmax-failed", "", "%s op%d: SetMaxSegmentSize: %v", label, i, err)
			}
			curKind = ""
			maxSeg = o.Max
			checkEmpty(i, "setmax")
		case "purge":
			cutoff := time.Now().Add(-time.Duration(o.Age) * time.Second)
			m.purges = append(m.purges, purge{at: time.Now(), cutoff: cutoff})
			curKind = "purge"
			if err := q.PurgeOlderThan(cutoff); err != nil {
				fail("purge-failed", "", "%s op%d: PurgeOlderThan: %v", label, i, err)
			}
			curKind = ""
			run.Probe("purge")
			checkEmpty(i, "purge")
		case "sleep":
			time.Sleep(time.Duration(o.Age) * time.Second)
		case "hold":
			if held == 0 {
				held = q.TakeTokens(9)
			}
		case "release":
			q.ReleaseTokens(held)
			held = 0
		case "reopen":
			if held > 0 {
				q.ReleaseTokens(held)
				held = 0
			}
			if err := q.Close(); err != nil {
				fail("close-failed", "", "%s op%d: Close: %v", label, i, err)
			}
			// a clean close keeps what was acknowledged, buffered or not
			for j := m.head; j < len(m.all); j++ {
				if m.all[j].buffered {
					run.Probe("close-with-buffered-blocks")
				}
			}
			flushedAll()
			curKind = "open"
			q = open()
			curKind = ""
			if q == nil {
				return
			}
			run.Probe("reopen")
			checkEmpty(i, "reopen")
		}
	}
	verifhook.SetPoint(nil)
	q.Close()
	q = nil
	run.Digest = fmt.Sprintf("b%d/h%d", len(m.all), m.head)
	for _, im := range images {
		if run.Failed() {
			break
		}
		run.NonTrivial = true
		r.phase(im.dir, depth+1, im.model, im, label+">img["+im.event+"]", im.maxSeg)
		os.RemoveAll(im.dir)
	}
}

func min64(a, b int64) int64 {
	if a < b {
		return a
	}
	return b
}

// ---- processor mode ----

type target struct {
	mu      sync.Mutex
	script  []string
	calls   int
	applied [][]byte // point payloads applied, in order
	log     []string
	run     *core.Run
}

func (t *target) WriteShardBinary(shardID, ownerID uint64, points [][]byte) error {
	t.mu.Lock()
	defer t.mu.Unlock()
	oc := "ok"
	if t.calls < len(t.script) {
		oc = t.script[t.calls]
	}
	t.calls++
	t.log = append(t.log, fmt.Sprintf("call%d %d points -> %s", t.calls, len(points), oc))
	switch oc {
	case "ok":
		for _, p := range points {
			t.applied = append(t.applied, append([]byte(nil), p...))
		}
		return nil
	case "lostack":
		for _, p := range points {
			t.applied = append(t.applied, append([]byte(nil), p...))
		}
		t.run.Fault("target-lost-ack")
		return errors.New("connection reset by peer")
	case "retry":
		t.run.Fault("target-retryable-error")
		return errors.New("dial tcp: connection refused")
	default:
		t.run.Fault("target-permanent-rejection")
		return errors.New("partial write: field type conflict dropped=1")
	}
}

type metaStub struct {
	mu      sync.Mutex
	present bool
}

func (m *metaStub) DataNode(id uint64) (*meta.NodeInfo, error) {
	m.mu.Lock()
	defer m.mu.Unlock()
	if !m.present {
		return nil, meta.ErrNodeNotFound
	}
	return &meta.NodeInfo{ID: id}, nil
}

func execProcessor(run *core.Run, p *plan) {
	dir := filepath.Join(run.Scratch, "hh")
	cfg := hh.NewConfig()
	cfg.Enabled = true
	tg := &target{script: p.Script, run: run}
	ms := &metaStub{present: true}
	mk := func() *hh.NodeProcessor {
		np := hh.NewNodeProcessor(cfg, 2, 7, dir, tg, ms)
		if err := np.Open(); err != nil {
			run.Fail("processor-open-failed", "", "Open: %v", err)
			return nil
		}
		if p.MaxSeg > 0 {
			if err := np.VerifSetMaxSegmentSize(p.MaxSeg); err != nil {
				run.Fail("harness-error", "", "VerifSetMaxSegmentSize: %v", err)
				return nil
			}
		}
		return np
	}
	np := mk()
	if np == nil {
		return
	}
	defer func() { np.Close() }()
	var accepted [][]byte // every point accepted, in order
	var rejectedOK = map[string]bool{}
	seq := 0
	for i, o := range p.Phases[0] {
		if run.Failed() {
			return
		}
		core.Progress()
		run.Op(o.Kind)
		run.Logf("op%d %s", i, o.Kind)
		switch o.Kind {
		case "write-in-empty-window":
			var writes [][]models.Point
			for _, n := range append([]int{o.NPoints}, o.Sizes...) {
				var pts []models.Point
				for j := 0; j < n; j++ {
					seq++
					pt, _ := models.NewPoint("m", models.NewTags(map[string]string{"k": fmt.Sprint(seq)}), models.Fields{"v": int64(seq)}, time.Unix(0, int64(seq)))
					pts = append(pts, pt)
				}
				writes = append(writes, pts)
			}
			fired := false
			werrs := make([]error, len(writes))
			verifhook.SetYield(func(ev string, args ...interface{}) {
				if ev != "hh.sendwrite.eof" || fired {
					return
				}
				fired = true
				for k, pts := range writes {
					werrs[k] = np.WriteShard(pts)
				}
			})
			time.Sleep(3 * time.Duration(cfg.RetryMaxInterval))
			verifhook.SetYield(nil)
			if fired {
				run.Probe("write-in-empty-window")
				for k, pts := range writes {
					if werrs[k] != nil {
						run.Logf("op%d window write %d refused: %v", i, k, werrs[k])
						continue
					}
					for _, pt := range pts {
						b, _ := pt.MarshalBinary()
						accepted = append(accepted, b)
					}
				}
			}
		case "write":
			var pts []models.Point
			for j := 0; j < o.NPoints; j++ {
				seq++
				pt, err := models.NewPoint("m", models.NewTags(map[string]string{"k": fmt.Sprint(seq)}), models.Fields{"v": int64(seq)}, time.Unix(0, int64(seq)))
				if err != nil {
					run.Fail("harness-error", "", "NewPoint: %v", err)
					return
				}
				pts = append(pts, pt)
			}
			if err := np.WriteShard(pts); err != nil {
				run.Fail("handoff-write-failed", "", "op%d: NodeProcessor.WriteShard: %v", i, err)
				return
			}
			for _, pt := range pts {
				b, _ := pt.MarshalBinary()
				accepted = append(accepted, b)
			}
		case "sleep":
			time.Sleep(time.Duration(o.Age) * time.Second)
		case "toggle-node":
			ms.mu.Lock()
			ms.present = !ms.present
			if !ms.present {
				run.Fault("node-removed")
			}
			ms.mu.Unlock()
		case "reopen":
			if err := np.Close(); err != nil {
				run.Fail("processor-close-failed", "", "Close: %v", err)
				return
			}
			if np = mk(); np == nil {
				return
			}
			run.Probe("reopen")
		}
	}
	// Faults stop: node present, target healthy from now on. Bounded liveness:
	// everything accepted is delivered within a few maximal retry intervals.
	ms.mu.Lock()
	ms.present = true
	ms.mu.Unlock()
	tg.mu.Lock()
	tg.script = tg.script[:min(tg.calls, len(tg.script))]
	tg.mu.Unlock()
	time.Sleep(10 * time.Duration(cfg.RetryMaxInterval))
	tg.mu.Lock()
	applied := tg.applied
	calls := tg.calls
	log := strings.Join(tg.log, "; ")
	tg.mu.Unlock()
	_ = rejectedOK
	// Oracle: applied is accepted in order; a point may be applied again
	// (at-least-once) only right after a lost ack; points of a block the
	// target permanently rejected may be absent.
	ai := 0
	rejected := 0
	for _, s := range p.Script[:min(calls, len(p.Script))] {
		if s == "reject" {
			rejected++
		}
	}
	pos := map[string]int{}
	for i, a := range accepted {
		pos[string(a)] = i
	}
	last := -1
	seen := map[int]int{}
	for _, a := range applied {
		i, ok := pos[string(a)]
		if !ok {
			run.Fail("delivered-unknown-block", "", "target received a point that was never handed to hinted handoff")
			return
		}
		seen[i]++
		if i < last && seen[i] < 2 {
			run.Fail("delivery-out-of-order", "", "target received accepted point #%d after #%d (%s)", i, last, log)
			return
		}
		if i > last {
			last = i
		}
	}
	_ = ai
	missing := 0
	for i := range accepted {
		if seen[i] == 0 {
			missing++
		}
	}
	if missing > 0 && rejected == 0 {
		run.Fail("block-lost", "processor", "%d of %d accepted points never reached the target although it was healthy for %v of fake time after the last fault and rejected nothing (%s)", missing, len(accepted), 10*time.Duration(cfg.RetryMaxInterval), log)
		return
	}
	if !np.Empty() && rejected == 0 && missing == 0 {
		run.Fail("nonempty-while-nothing-pending", "processor", "everything was delivered but NodeProcessor.Empty() is false (%s)", log)
	}
	if missing == 0 && len(accepted) > 0 {
		run.Probe("all-delivered")
	}
	run.NonTrivial = calls > 0
	run.Digest = fmt.Sprintf("acc%d/app%d", len(accepted), len(applied))
}

func exec(run *core.Run, pl interface{}) {
	p := pl.(*plan)
	if p.Mode == "processor" {
		execProcessor(run, p)
		return
	}
	pp := *p // MaxSeg is mutated by setmax
	r := &qrunner{run: run, p: &pp, tape: &storesim.Tape{V: p.Tape}}
	dir := filepath.Join(run.Scratch, "queue")
	os.MkdirAll(dir, 0o777)
	r.phase(dir, 0, &qmodel{}, nil, "d0", p.MaxSeg)
}

func describe(pl interface{}) interface{} {
	p := pl.(*plan)
	var phases [][]string
	for _, ph := range p.Phases {
		var ops []string
		for _, o := range ph {
			switch o.Kind {
			case "append":
				ops = append(ops, fmt.Sprintf("append(%d)", o.Size))
			case "send-window":
				ops = append(ops, fmt.Sprintf("send-window(%v)", o.Sizes))
			case "setmax":
				ops = append(ops, fmt.Sprintf("setmax(%d)", o.Max))
			case "purge", "sleep":
				ops = append(ops, fmt.Sprintf("%s(%ds)", o.Kind, o.Age))
			case "write":
				ops = append(ops, fmt.Sprintf("write(%d points)", o.NPoints))
			default:
				ops = append(ops, o.Kind)
			}
		}
		phases = append(phases, ops)
	}
	d := map[string]interface{}{"mode": p.Mode, "phases": phases}
	if p.Mode == "queue" {
		d["max_segment"] = p.MaxSeg
		d["max_size"] = p.MaxSize
	} else {
		d["target_script"] = p.Script[:12]
		d["max_segment"] = p.MaxSeg
	}
	return d
}

func TestC04(t *testing.T) {
	core.Main(t, core.Harness{
		Property:       "C04",
		Gen:            genPlan,
		Exec:           exec,
		Bubble:         true,
		Describe:       describe,
		Tier:           "A",
		RequiredProbes: []string{"image-drained", "append-accepted", "reopen", "all-delivered", "crash-after-head-trim", "write-in-empty-window", "append-on-buffered-path", "close-with-buffered-blocks"},
		Real:           []string{"hh.queue, hh.segment (append/flush/advance/truncate/trimHead/PurgeOlderThan)", "hh.NodeProcessor (WriteShard, run loop, SendWrite, back-off)", "pkg/limiter"},
		Stub:           []string{"target node (WriteShardBinary outcomes scripted)", "meta client (DataNode present/removed)"},
		Assumptions: []string{
			"a queue write (blocks + new footer, overwriting the old footer in place) may reach the disk as any prefix until the following Sync returns; everything synced survives",
			"file times are stamped from the simulated clock by the harness (the kernel would stamp real time)",
			"the buffered append path (>=10 concurrent writers) is exercised by C19, not here",
		},
		Rule: "queue mode: a run = seeded appends/deliveries/Empty checks/segment-size changes/purges/reopens on the real queue with crash images crafted at its write events (cut anywhere in the in-flight write), each image reopened, drained and driven further (depth<=3); processor mode: the real NodeProcessor on the fake clock against a scripted target; non-trivial = at least one crash image drained or one target call; distinct = distinct (op kinds, fault kinds, probes, final digest)",
	})
}
