// Package c15_protocol decides C15: no byte stream received on the inter-node
// port crashes a data node or makes it allocate more than the maximum frame
// size; malformed frames are answered with an error or by closing; every
// message and streamed point decodes to what was encoded.
//
// One run: a cluster of two real data nodes on the simulated network. Real
// client calls (ShardWriter, MetaExecutor, coordinator.Client) from node 1 to
// node 2 are recorded byte for byte - this is the corpus of well-formed
// request streams and the set of reply types a node sends. A hostile peer then
// opens connections to node 2 and sends plan-decided streams: corpus entries
// with flipped bytes, rewritten type bytes and length prefixes (negative,
// huge, off by one), truncations, garbage tails, random payloads, repeated
// frames, and valid write envelopes around generated point bytes (valid,
// truncated, random). The connection is fragmented, delayed, closed at a
// plan-decided moment. Each stream is served by the node's real connection
// handler, first on a goroutine the simulator watches (a panic there is the
// node crashing), then once more through the real multiplexer and accept loop.
// After every stream the node must still serve a real lookup and a real write.
package c15_protocol

import (
	"bytes"
	"context"
	"encoding/binary"
	"fmt"
	"io"
	"math"
	"net"
	"path/filepath"
	"reflect"
	"runtime"
	"runtime/debug"
	"sort"
	"strings"
	"sync"
	"testing"
	"time"

	"github.com/gogo/protobuf/types"
	"github.com/influxdata/influxdb/coordinator"
	"github.com/influxdata/influxdb/models"
	"github.com/influxdata/influxdb/pkg/verifhook"
	"github.com/influxdata/influxdb/query"
	"github.com/influxdata/influxdb/services/meta"
	"github.com/influxdata/influxdb/services/storage"
	"github.com/influxdata/influxdb/storage/reads/datatypes"
	"github.com/influxdata/influxql"
	"pgregory.net/rapid"

	"verifsim/clustersim"
	"verifsim/core"
	"verifsim/metacmd"
	"verifsim/simnet"
	"verifsim/storesim"
)

// The protocol's maximum frame size as documented ("1GB"); deliberately not
// read from the implementation.
const specMaxFrame = 1 << 30

type mut struct {
	Kind string // flip, type, len, trunc, append, payload, dup
	Pos  int64
	Val  int64
}

type attack struct {
	Base   int   // corpus entry (mod size); -1: write envelope around Points; -2: raw bytes
	Muts   []mut // applied in order
	Tail   []byte
	Points [][]byte
	Frag   int
	Lat    int
	Hold   bool // keep the connection open (wait for replies) before closing
}

type spoint struct {
	Name  string
	Tags  map[string]string
	Time  int64
	Nil   bool
	F     float64
	I     int64
	S     string
	B     bool
	Aux   []int // kinds of aux values
	AuxV  []int64
	Aggr  uint32
	Empty bool
}

type plan struct {
	Attacks []attack
	Stream  []spoint
	SType   int // 0 float 1 integer 2 unsigned 3 string 4 boolean
	SFrag   int
	Opt     optPlan
	WPoints []wpoint
	Index   string
}

type wpoint struct {
	M    string
	Tags map[string]string
	F    map[string]int // field name -> kind
	V    int64
	T    int64
}

type optPlan struct {
	Expr      string
	Aux       []string
	Dims      []string
	Interval  int64
	Offset    int64
	Fill      int
	FillValue float64
	Cond      string
	Start     int64
	End       int64
	Asc       bool
	Limit     int
	Off       int
	SLimit    int
	SOffset   int
	Strip     bool
	Dedupe    bool
	MaxSeries int
	Ordered   bool
	Loc       string
}

var t0 = time.Date(2000, 1, 1, 0, 0, 0, 0, time.UTC)

func genTags(t *rapid.T, l string) map[string]string {
	m := map[string]string{}
	n := rapid.IntRange(0, 3).Draw(t, l+".ntags")
	for i := 0; i < n; i++ {
		k := rapid.SampledFrom([]string{"a", "b", "host", "region", "z z", "e=q", "c,d"}).Draw(t, fmt.Sprintf("%s.k%d", l, i))
		v := rapid.SampledFrom([]string{"", "x", "y", "p q", "v=1", "1,2", "é"}).Draw(t, fmt.Sprintf("%s.v%d", l, i))
		m[k] = v
	}
	return m
}

func genPlan(t *rapid.T) interface{} {
	p := &plan{}
	p.Index = rapid.SampledFrom([]string{"inmem", "tsi1"}).Draw(t, "index")
	na := rapid.IntRange(1, 5).Draw(t, "nattacks")
	for i := 0; i < na; i++ {
		l := fmt.Sprintf("a%d", i)
		a := attack{}
		switch k := rapid.IntRange(0, 9).Draw(t, l+".base"); {
		case k < 6:
			a.Base = rapid.IntRange(0, 63).Draw(t, l+".entry")
		case k < 9:
			a.Base = -1
			np := rapid.IntRange(1, 4).Draw(t, l+".np")
			for j := 0; j < np; j++ {
				a.Points = append(a.Points, genPointBytes(t, fmt.Sprintf("%s.p%d", l, j)))
			}
		default:
			a.Base = -2
		}
		nm := rapid.IntRange(0, 3).Draw(t, l+".nmuts")
		for j := 0; j < nm; j++ {
			ml := fmt.Sprintf("%s.m%d", l, j)
			a.Muts = append(a.Muts, mut{
				Kind: rapid.SampledFrom([]string{"flip", "flip", "type", "len", "len", "trunc", "append", "payload", "dup"}).Draw(t, ml+".kind"),
				Pos:  int64(rapid.IntRange(0, 1<<16).Draw(t, ml+".pos")),
				Val:  int64(rapid.IntRange(0, 255).Draw(t, ml+".val")),
			})
		}
		a.Tail = rapid.SliceOfN(rapid.Byte(), 0, 40).Draw(t, l+".tail")
		a.Frag = rapid.SampledFrom([]int{0, 0, 1, 3, 7}).Draw(t, l+".frag")
		a.Lat = rapid.SampledFrom([]int{0, 0, 20}).Draw(t, l+".lat")
		a.Hold = rapid.Bool().Draw(t, l+".hold")
		p.Attacks = append(p.Attacks, a)
	}
	// streamed points
	p.SType = rapid.IntRange(0, 4).Draw(t, "stype")
	p.SFrag = rapid.SampledFrom([]int{0, 1, 5, 64}).Draw(t, "sfrag")
	ns := rapid.IntRange(0, 8).Draw(t, "nstream")
	for i := 0; i < ns; i++ {
		l := fmt.Sprintf("s%d", i)
		sp := spoint{
			Name: rapid.SampledFrom([]string{"m", "", "cpu load", "m,1"}).Draw(t, l+".name"),
			Tags: genTags(t, l),
			Time: rapid.Int64Range(math.MinInt64+2, math.MaxInt64-1).Draw(t, l+".time"),
			Nil:  rapid.IntRange(0, 4).Draw(t, l+".nil") == 0,
			F:    rapid.SampledFrom([]float64{0, 1.5, -2.25, math.MaxFloat64, math.SmallestNonzeroFloat64, math.Inf(1)}).Draw(t, l+".f"),
			I:    rapid.SampledFrom([]int64{0, 1, -1, math.MaxInt64, math.MinInt64}).Draw(t, l+".i"),
			S:    rapid.SampledFrom([]string{"", "x", "a\x00b", "long string with spaces", "é"}).Draw(t, l+".s"),
			B:    rapid.Bool().Draw(t, l+".b"),
			Aggr: uint32(rapid.IntRange(0, 3).Draw(t, l+".aggr")),
		}
		naux := rapid.IntRange(0, 4).Draw(t, l+".naux")
		for j := 0; j < naux; j++ {
			sp.Aux = append(sp.Aux, rapid.IntRange(0, 10).Draw(t, fmt.Sprintf("%s.aux%d", l, j)))
			sp.AuxV = append(sp.AuxV, rapid.Int64Range(-3, 3).Draw(t, fmt.Sprintf("%s.auxv%d", l, j)))
		}
		p.Stream = append(p.Stream, sp)
	}
	// iterator options
	o := &p.Opt
	o.Expr = rapid.SampledFrom([]string{"", `"f"`, `mean("f")`, `count("i")`, `percentile("f", 90)`, `top("f", "a", 2)`, `derivative(mean("f"), 1s)`, `"f" + 2 * "g"`}).Draw(t, "o.expr")
	o.Aux = rapid.SliceOfNDistinct(rapid.SampledFrom([]string{"f", "g", "i", "s", "a"}), 0, 3, func(s string) string { return s }).Draw(t, "o.aux")
	o.Dims = rapid.SliceOfNDistinct(rapid.SampledFrom([]string{"a", "b", "host"}), 0, 3, func(s string) string { return s }).Draw(t, "o.dims")
	o.Interval = rapid.SampledFrom([]int64{0, int64(time.Second), int64(time.Hour), 7}).Draw(t, "o.interval")
	o.Offset = rapid.SampledFrom([]int64{0, 3, int64(time.Minute)}).Draw(t, "o.offset")
	o.Fill = rapid.IntRange(0, 4).Draw(t, "o.fill")
	o.FillValue = rapid.SampledFrom([]float64{0, 1.5, -7}).Draw(t, "o.fillv")
	o.Cond = rapid.SampledFrom([]string{"", `"a" = 'x'`, `"f" > 1.5 AND "b" != 'p'`, `"a" =~ /x.*/ OR "i" < -3`, `"s" = 'it''s'`}).Draw(t, "o.cond")
	o.Start = rapid.SampledFrom([]int64{influxql.MinTime, 0, -5, 1000}).Draw(t, "o.start")
	o.End = rapid.SampledFrom([]int64{influxql.MaxTime, 0, 2000}).Draw(t, "o.end")
	o.Asc = rapid.Bool().Draw(t, "o.asc")
	o.Limit = rapid.IntRange(0, 3).Draw(t, "o.limit")
	o.Off = rapid.IntRange(0, 3).Draw(t, "o.off")
	o.SLimit = rapid.IntRange(0, 3).Draw(t, "o.slimit")
	o.SOffset = rapid.IntRange(0, 3).Draw(t, "o.soffset")
	o.Strip = rapid.Bool().Draw(t, "o.strip")
	o.Dedupe = rapid.Bool().Draw(t, "o.dedupe")
	o.MaxSeries = rapid.IntRange(0, 3).Draw(t, "o.maxseries")
	o.Ordered = rapid.Bool().Draw(t, "o.ordered")
	o.Loc = rapid.SampledFrom([]string{"", "UTC", "America/New_York"}).Draw(t, "o.loc")
	// points for a write request round trip
	nw := rapid.IntRange(1, 4).Draw(t, "nw")
	for i := 0; i < nw; i++ {
		l := fmt.Sprintf("w%d", i)
		w := wpoint{M: rapid.SampledFrom([]string{"zz", "cpu load", "m,1", "e=q"}).Draw(t, l+".m"), Tags: genTags(t, l), F: map[string]int{}}
		nf := rapid.IntRange(1, 3).Draw(t, l+".nf")
		for j := 0; j < nf; j++ {
			w.F[rapid.SampledFrom([]string{"f", "g", "v v", "s"}).Draw(t, fmt.Sprintf("%s.fn%d", l, j))] = rapid.IntRange(0, 4).Draw(t, fmt.Sprintf("%s.fk%d", l, j))
		}
		w.V = rapid.Int64Range(-5, 5).Draw(t, l+".v")
		w.T = rapid.Int64Range(0, 3599).Draw(t, l+".t")
		p.WPoints = append(p.WPoints, w)
	}
	return p
}

// genPointBytes: the bytes of one point inside a write envelope - a valid
// binary point, a damaged one, or noise.
func genPointBytes(t *rapid.T, l string) []byte {
	pt := models.MustNewPoint("zz", models.NewTags(map[string]string{"a": "x"}), models.Fields{"f": float64(rapid.IntRange(-3, 3).Draw(t, l+".v"))}, t0.Add(time.Duration(rapid.IntRange(0, 3599).Draw(t, l+".t"))*time.Second))
	b, _ := pt.MarshalBinary()
	switch rapid.IntRange(0, 5).Draw(t, l+".shape") {
	case 0:
		return b
	case 1:
		return b[:rapid.IntRange(0, len(b)-1).Draw(t, l+".cut")]
	case 2:
		c := append([]byte(nil), b...)
		i := rapid.IntRange(0, len(c)-1).Draw(t, l+".at")
		c[i] ^= byte(1 << rapid.IntRange(0, 7).Draw(t, l+".bit"))
		return c
	case 3:
		return rapid.SliceOfN(rapid.Byte(), 0, 24).Draw(t, l+".noise")
	case 4:
		return nil
	default:
		// a length prefix that points beyond the end
		c := append([]byte(nil), b...)
		binary.BigEndian.PutUint32(c[0:4], uint32(rapid.SampledFrom([]int{0, 1, len(b), len(b) * 2, 1 << 31, 0xffffffff}).Draw(t, l+".klen")))
		return c
	}
}

func mkWPoint(w wpoint) models.Point {
	f := models.Fields{}
	for name, k := range w.F {
		switch k {
		case 0:
			f[name] = float64(w.V) / 4
		case 1:
			f[name] = w.V
		case 2:
			f[name] = fmt.Sprintf("s %d \"quoted\"", w.V)
		case 3:
			f[name] = w.V%2 == 0
		default:
			f[name] = uint64(w.V + 5)
		}
	}
	return models.MustNewPoint(w.M, models.NewTags(w.Tags), f, t0.Add(time.Duration(w.T)*time.Second))
}

// ---- recorder ----

type recorder struct {
	mu    sync.Mutex
	conns []*recConn
}

type recConn struct {
	net.Conn
	r    *recorder
	mu   sync.Mutex
	sent []byte
	rcvd []byte
}

func (c *recConn) Write(b []byte) (int, error) {
	c.mu.Lock()
	c.sent = append(c.sent, b...)
	c.mu.Unlock()
	return c.Conn.Write(b)
}

func (c *recConn) Read(b []byte) (int, error) {
	n, err := c.Conn.Read(b)
	c.mu.Lock()
	c.rcvd = append(c.rcvd, b[:n]...)
	c.mu.Unlock()
	return n, err
}

func buildData() (*meta.Data, error) {
	d := &meta.Data{}
	for i := 1; i <= 2; i++ {
		d.Index++
		if err := d.CreateDataNode(fmt.Sprintf("node%d:8086", i), clustersim.Addr(uint64(i))); err != nil {
			return nil, err
		}
	}
	if err := d.CreateDatabase(storesim.DB); err != nil {
		return nil, err
	}
	if err := d.CreateRetentionPolicy(storesim.DB, &meta.RetentionPolicyInfo{Name: storesim.RP, ReplicaN: 2, Duration: 0, ShardGroupDuration: time.Hour}, true); err != nil {
		return nil, err
	}
	d.Index++
	if err := d.CreateShardGroup(storesim.DB, storesim.RP, t0); err != nil {
		return nil, err
	}
	return d, nil
}

type sliceIter struct {
	typ int
	pts []spoint
	i   int
}

func auxValue(kind int, v int64) interface{} {
	switch kind {
	case 0:
		return float64(v) / 2
	case 1:
		return v
	case 2:
		return uint64(v + 3)
	case 3:
		if v == 0 {
			return "" // an empty string is a value, not a nil marker
		}
		return fmt.Sprintf("s%d", v)
	case 4:
		return v%2 == 0
	case 5:
		return (*float64)(nil)
	case 6:
		return (*int64)(nil)
	case 7:
		return (*uint64)(nil)
	case 8:
		return (*string)(nil)
	case 9:
		return (*bool)(nil)
	default:
		return nil
	}
}

func (s spoint) aux() []interface{} {
	if len(s.Aux) == 0 {
		return nil
	}
	a := make([]interface{}, len(s.Aux))
	for i := range s.Aux {
		a[i] = auxValue(s.Aux[i], s.AuxV[i])
	}
	return a
}

type fIter struct{ *sliceIter }
type iIter struct{ *sliceIter }
type uIter struct{ *sliceIter }
type sIter struct{ *sliceIter }
type bIter struct{ *sliceIter }

func (s *sliceIter) Stats() query.IteratorStats { return query.IteratorStats{SeriesN: 3, PointN: 4} }
func (s *sliceIter) Close() error               { return nil }
func (s *sliceIter) next() *spoint {
	if s.i >= len(s.pts) {
		return nil
	}
	s.i++
	return &s.pts[s.i-1]
}
func (it fIter) Next() (*query.FloatPoint, error) {
	p := it.next()
	if p == nil {
		return nil, nil
	}
	return &query.FloatPoint{Name: p.Name, Tags: query.NewTags(p.Tags), Time: p.Time, Value: p.F, Aux: p.aux(), Nil: p.Nil, Aggregated: p.Aggr}, nil
}
func (it iIter) Next() (*query.IntegerPoint, error) {
	p := it.next()
	if p == nil {
		return nil, nil
	}
	return &query.IntegerPoint{Name: p.Name, Tags: query.NewTags(p.Tags), Time: p.Time, Value: p.I, Aux: p.aux(), Nil: p.Nil, Aggregated: p.Aggr}, nil
}
func (it uIter) Next() (*query.UnsignedPoint, error) {
	p := it.next()
	if p == nil {
		return nil, nil
	}
	return &query.UnsignedPoint{Name: p.Name, Tags: query.NewTags(p.Tags), Time: p.Time, Value: uint64(p.I), Aux: p.aux(), Nil: p.Nil, Aggregated: p.Aggr}, nil
}
func (it sIter) Next() (*query.StringPoint, error) {
	p := it.next()
	if p == nil {
		return nil, nil
	}
	return &query.StringPoint{Name: p.Name, Tags: query.NewTags(p.Tags), Time: p.Time, Value: p.S, Aux: p.aux(), Nil: p.Nil, Aggregated: p.Aggr}, nil
}
func (it bIter) Next() (*query.BooleanPoint, error) {
	p := it.next()
	if p == nil {
		return nil, nil
	}
	return &query.BooleanPoint{Name: p.Name, Tags: query.NewTags(p.Tags), Time: p.Time, Value: p.B, Aux: p.aux(), Nil: p.Nil, Aggregated: p.Aggr}, nil
}

func describePoint(name string, tags query.Tags, tm int64, v interface{}, aux []interface{}, isNil bool, aggr uint32) string {
	var as []string
	for _, a := range aux {
		as = append(as, fmt.Sprintf("%T:%v", a, reflect.Indirect(reflect.ValueOf(&a)).Interface()))
	}
	// typed nil pointers print as <nil>; keep their type
	kv := tags.KeyValues()
	keys := make([]string, 0, len(kv))
	for k := range kv {
		keys = append(keys, k)
	}
	sort.Strings(keys)
	var ts []string
	for _, k := range keys {
		ts = append(ts, fmt.Sprintf("%q=%q", k, kv[k]))
	}
	if isNil {
		v = "-"
	}
	return fmt.Sprintf("name=%q tags={%s} t=%d v=%v nil=%v aggr=%d aux=[%s]", name, strings.Join(ts, ","), tm, v, isNil, aggr, strings.Join(as, " "))
}

// streamRoundTrip sends generated points of one type through the real
// iterator encoder, a fragmenting connection and the real reader iterator.
func streamRoundTrip(run *core.Run, nw *simnet.Net, p *plan) {
	pol := simnet.NoFault
	pol.Fragment = p.SFrag
	cl, sv := nw.Pipe(pol)
	src := &sliceIter{typ: p.SType, pts: p.Stream}
	var itr query.Iterator
	var typ influxql.DataType
	var want []string
	for _, sp := range p.Stream {
		var v interface{}
		switch p.SType {
		case 0:
			v = sp.F
		case 1:
			v = sp.I
		case 2:
			v = uint64(sp.I)
		case 3:
			v = sp.S
		default:
			v = sp.B
		}
		want = append(want, describePoint(sp.Name, query.NewTags(sp.Tags), sp.Time, v, sp.aux(), sp.Nil, sp.Aggr))
	}
	switch p.SType {
	case 0:
		itr, typ = fIter{src}, influxql.Float
	case 1:
		itr, typ = iIter{src}, influxql.Integer
	case 2:
		itr, typ = uIter{src}, influxql.Unsigned
	case 3:
		itr, typ = sIter{src}, influxql.String
	default:
		itr, typ = bIter{src}, influxql.Boolean
	}
	encErr := make(chan error, 1)
	go func() {
		defer func() {
			if r := recover(); r != nil {
				sv.Close()
				encErr <- fmt.Errorf("panic: %v", r)
			}
		}()
		err := query.NewIteratorEncoder(sv).EncodeIterator(itr)
		sv.Close()
		encErr <- err
	}()
	rd := query.NewReaderIterator(context.Background(), cl, typ, query.IteratorStats{})
	var got []string
	var rerr error
	for {
		var name string
		var tags query.Tags
		var tm int64
		var v interface{}
		var aux []interface{}
		var isNil bool
		var aggr uint32
		end := false
		switch r := rd.(type) {
		case query.FloatIterator:
			pt, err := r.Next()
			if rerr = err; pt == nil {
				end = true
			} else {
				name, tags, tm, v, aux, isNil, aggr = pt.Name, pt.Tags, pt.Time, pt.Value, pt.Aux, pt.Nil, pt.Aggregated
			}
		case query.IntegerIterator:
			pt, err := r.Next()
			if rerr = err; pt == nil {
				end = true
			} else {
				name, tags, tm, v, aux, isNil, aggr = pt.Name, pt.Tags, pt.Time, pt.Value, pt.Aux, pt.Nil, pt.Aggregated
			}
		case query.UnsignedIterator:
			pt, err := r.Next()
			if rerr = err; pt == nil {
				end = true
			} else {
				name, tags, tm, v, aux, isNil, aggr = pt.Name, pt.Tags, pt.Time, pt.Value, pt.Aux, pt.Nil, pt.Aggregated
			}
		case query.StringIterator:
			pt, err := r.Next()
			if rerr = err; pt == nil {
				end = true
			} else {
				name, tags, tm, v, aux, isNil, aggr = pt.Name, pt.Tags, pt.Time, pt.Value, pt.Aux, pt.Nil, pt.Aggregated
			}
		case query.BooleanIterator:
			pt, err := r.Next()
			if rerr = err; pt == nil {
				end = true
			} else {
				name, tags, tm, v, aux, isNil, aggr = pt.Name, pt.Tags, pt.Time, pt.Value, pt.Aux, pt.Nil, pt.Aggregated
			}
		}
		if end {
			break
		}
		got = append(got, describePoint(name, tags, tm, v, aux, isNil, aggr))
	}
	cl.Close()
	if err := <-encErr; err != nil {
		run.Fail("stream-encoder-failed", fmt.Sprint(typ), "encoding an iterator of %d %s points: %v", len(p.Stream), typ, err)
		return
	}
	if rerr != nil {
		run.Fail("stream-decoder-failed", fmt.Sprint(typ), "decoding the encoded stream of %d %s points: %v", len(p.Stream), typ, rerr)
		return
	}
	if len(got) != len(want) {
		run.Fail("stream-point-lost-or-added", fmt.Sprint(typ), "sent %d %s points, received %d\nsent: %v\n got: %v", len(want), typ, len(got), want, got)
		return
	}
	for i := range want {
		w := want[i]
		if p.Stream[i].Nil {
			// the value of a nil point is not transmitted
			if !strings.Contains(got[i], "nil=true") || strip(got[i]) != strip(w) {
				run.Fail("stream-point-differs", fmt.Sprint(typ), "point %d sent as\n  %s\nreceived as\n  %s", i, w, got[i])
				return
			}
			continue
		}
		if got[i] != w {
			run.Fail("stream-point-differs", fmt.Sprint(typ), "point %d sent as\n  %s\nreceived as\n  %s", i, w, got[i])
			return
		}
	}
	run.ProbeN("stream-points-verified", len(want))
	for _, sp := range p.Stream {
		for _, v := range sp.Tags {
			if v == "" {
				run.Probe("stream-empty-tag-value")
			}
		}
	}
}

func strip(s string) string {
	a := strings.Index(s, " v=")
	b := strings.Index(s, " nil=")
	if a < 0 || b < a {
		return s
	}
	return s[:a] + s[b:]
}

func mkOpt(o *optPlan) (query.IteratorOptions, error) {
	var opt query.IteratorOptions
	if o.Expr != "" {
		e, err := influxql.ParseExpr(o.Expr)
		if err != nil {
			return opt, err
		}
		opt.Expr = e
	}
	for _, a := range o.Aux {
		opt.Aux = append(opt.Aux, influxql.VarRef{Val: a, Type: influxql.Float})
	}
	opt.Dimensions = o.Dims
	if len(o.Dims) > 0 {
		opt.GroupBy = map[string]struct{}{}
		for _, d := range o.Dims {
			opt.GroupBy[d] = struct{}{}
		}
	}
	opt.Interval = query.Interval{Duration: time.Duration(o.Interval), Offset: time.Duration(o.Offset)}
	opt.Fill = influxql.FillOption(o.Fill)
	if opt.Fill == influxql.NumberFill {
		opt.FillValue = o.FillValue
	}
	if o.Cond != "" {
		e, err := influxql.ParseExpr(o.Cond)
		if err != nil {
			return opt, err
		}
		opt.Condition = e
	}
	opt.StartTime, opt.EndTime = o.Start, o.End
	opt.Ascending = o.Asc
	opt.Limit, opt.Offset, opt.SLimit, opt.SOffset = o.Limit, o.Off, o.SLimit, o.SOffset
	opt.StripName, opt.Dedupe, opt.MaxSeriesN, opt.Ordered = o.Strip, o.Dedupe, o.MaxSeries, o.Ordered
	if o.Loc != "" {
		loc, err := time.LoadLocation(o.Loc)
		if err == nil {
			opt.Location = loc
		}
	}
	return opt, nil
}

func describeOpt(o query.IteratorOptions) string {
	e, c := "", ""
	if o.Expr != nil {
		e = o.Expr.String()
	}
	if o.Condition != nil {
		c = o.Condition.String()
	}
	var aux []string
	for _, a := range o.Aux {
		aux = append(aux, a.String())
	}
	dims := append([]string(nil), o.Dimensions...)
	var gb []string
	for k := range o.GroupBy {
		gb = append(gb, k)
	}
	sort.Strings(gb)
	loc := ""
	if o.Location != nil {
		loc = o.Location.String()
	}
	fv := o.FillValue
	if o.Fill != influxql.NumberFill {
		fv = nil
	}
	return fmt.Sprintf("expr=%s aux=%v dims=%v groupby=%v interval=%v fill=%v/%v cond=%s range=[%d,%d] asc=%v limit=%d/%d slimit=%d/%d strip=%v dedupe=%v maxseries=%d ordered=%v loc=%s",
		e, aux, dims, gb, o.Interval, o.Fill, fv, c, o.StartTime, o.EndTime, o.Ascending, o.Limit, o.Offset, o.SLimit, o.SOffset, o.StripName, o.Dedupe, o.MaxSeriesN, o.Ordered, loc)
}

func messageRoundTrips(run *core.Run, p *plan, shard uint64) {
	// write request
	var pts []models.Point
	var want []string
	for _, w := range p.WPoints {
		pt := mkWPoint(w)
		pts = append(pts, pt)
		want = append(want, pt.String())
	}
	var wr coordinator.WriteShardRequest
	wr.SetShardID(shard)
	wr.SetDatabase(storesim.DB)
	wr.SetRetentionPolicy(storesim.RP)
	wr.AddPoints(pts)
	b, err := wr.MarshalBinary()
	if err != nil {
		run.Fail("message-encode-failed", "WriteShardRequest", "%v", err)
		return
	}
	var wr2 coordinator.WriteShardRequest
	if err := wr2.UnmarshalBinary(b); err != nil {
		run.Fail("message-decode-failed", "WriteShardRequest", "%v", err)
		return
	}
	var got []string
	for _, pt := range wr2.Points() {
		if pt == nil {
			got = append(got, "<nil point>")
			continue
		}
		got = append(got, pt.String())
	}
	if wr2.ShardID() != shard || wr2.Database() != storesim.DB || wr2.RetentionPolicy() != storesim.RP || !reflect.DeepEqual(got, want) {
		run.Fail("message-differs-after-round-trip", "WriteShardRequest", "sent shard=%d points %q\n got shard=%d db=%q rp=%q points %q", shard, want, wr2.ShardID(), wr2.Database(), wr2.RetentionPolicy(), got)
		return
	}
	run.Probe("write-request-round-trip")
	// create-iterator request with generated options
	opt, err := mkOpt(&p.Opt)
	if err != nil {
		run.Fail("harness-error", "", "options: %v", err)
		return
	}
	req := coordinator.CreateIteratorRequest{ShardIDs: []uint64{shard, 7, 1 << 40}, Measurement: influxql.Measurement{Database: storesim.DB, RetentionPolicy: storesim.RP, Name: "m0"}, Opt: opt}
	b, err = req.MarshalBinary()
	if err != nil {
		run.Fail("message-encode-failed", "CreateIteratorRequest", "%v (options %s)", err, describeOpt(opt))
		return
	}
	var req2 coordinator.CreateIteratorRequest
	if err := req2.UnmarshalBinary(b); err != nil {
		run.Fail("message-decode-failed", "CreateIteratorRequest", "%v (options %s)", err, describeOpt(opt))
		return
	}
	if a, b := describeOpt(opt), describeOpt(req2.Opt); a != b || !reflect.DeepEqual(req.ShardIDs, req2.ShardIDs) || req.Measurement.String() != req2.Measurement.String() {
		run.Fail("message-differs-after-round-trip", "CreateIteratorRequest", "sent %v %s %s\n got %v %s %s", req.ShardIDs, req.Measurement.String(), a, req2.ShardIDs, req2.Measurement.String(), b)
		return
	}
	run.Probe("iterator-request-round-trip")
	// responses carrying errors and values
	ir := coordinator.CreateIteratorResponse{Err: fmt.Errorf("boom %d", shard), Type: influxql.DataType(p.SType + 1), Stats: query.IteratorStats{SeriesN: 3, PointN: 9}}
	b, _ = ir.MarshalBinary()
	var ir2 coordinator.CreateIteratorResponse
	if err := ir2.UnmarshalBinary(b); err != nil || ir2.Err == nil || ir2.Err.Error() != ir.Err.Error() || ir2.Type != ir.Type || ir2.Stats != ir.Stats {
		run.Fail("message-differs-after-round-trip", "CreateIteratorResponse", "sent %+v got %+v (%v)", ir, ir2, err)
		return
	}
	// every data type a node can name in an answer (the list is closed:
	// unknown .. unsigned), with and without an error beside it
	allTypes := []influxql.DataType{influxql.Unknown, influxql.Float, influxql.Integer, influxql.String, influxql.Boolean, influxql.Time, influxql.Duration, influxql.Tag, influxql.AnyField, influxql.Unsigned}
	allFields := map[string]influxql.DataType{}
	for _, dt := range allTypes {
		allFields["field of type "+dt.String()] = dt
		r1 := coordinator.CreateIteratorResponse{Type: dt, Stats: query.IteratorStats{SeriesN: int(dt), PointN: 1}}
		b, _ = r1.MarshalBinary()
		var r1b coordinator.CreateIteratorResponse
		if err := r1b.UnmarshalBinary(b); err != nil || r1b.Err != nil || r1b.Type != dt || r1b.Stats != r1.Stats {
			run.Fail("message-differs-after-round-trip", "CreateIteratorResponse", "sent type %s, got %+v (%v)", dt, r1b, err)
			return
		}
		r2 := coordinator.MapTypeResponse{Type: dt}
		b, _ = r2.MarshalBinary()
		var r2b coordinator.MapTypeResponse
		if err := r2b.UnmarshalBinary(b); err != nil || r2b.Err != nil || r2b.Type != dt {
			run.Fail("message-differs-after-round-trip", "MapTypeResponse", "sent type %s, got %+v (%v)", dt, r2b, err)
			return
		}
	}
	run.Probe("response-types-round-trip")
	fr := coordinator.FieldDimensionsResponse{Fields: allFields, Dimensions: map[string]struct{}{"a": {}, "": {}}}
	b, _ = fr.MarshalBinary()
	var fr2 coordinator.FieldDimensionsResponse
	if err := fr2.UnmarshalBinary(b); err != nil || !reflect.DeepEqual(fr.Fields, fr2.Fields) || !reflect.DeepEqual(fr.Dimensions, fr2.Dimensions) {
		run.Fail("message-differs-after-round-trip", "FieldDimensionsResponse", "sent %+v got %+v (%v)", fr, fr2, err)
		return
	}
}

// ---- the attack ----

func lenTable(actual int64) []int64 {
	return []int64{-1, math.MinInt64, math.MaxInt64, specMaxFrame, specMaxFrame + 1, 1 << 31, 1 << 32, 1 << 40, 0, actual + 1, actual - 1, actual * 2, 3, -actual}
}

func buildStream(a *attack, corpus [][]byte, writeHead []byte, shard uint64) (stream []byte, legalHuge bool) {
	switch {
	case a.Base >= 0:
		stream = append([]byte(nil), corpus[a.Base%len(corpus)]...)
	case a.Base == -1:
		pb := new(metacmd.Buf).Uint(1, shard)
		for _, p := range a.Points {
			pb.Bytes(2, p)
		}
		pb.Str(3, storesim.DB).Str(4, storesim.RP)
		payload := pb.B
		stream = append(stream, writeHead[0], writeHead[1])
		var l [8]byte
		binary.BigEndian.PutUint64(l[:], uint64(len(payload)))
		stream = append(stream, l[:]...)
		stream = append(stream, payload...)
	default:
		stream = append([]byte{writeHead[0]}, a.Tail...)
	}
	for _, m := range a.Muts {
		if len(stream) < 2 {
			break
		}
		switch m.Kind {
		case "flip":
			i := 1 + int(m.Pos)%(len(stream)-1)
			stream[i] ^= byte(1 << (m.Val % 8))
		case "type":
			stream[1] = byte(m.Val)
		case "len":
			if len(stream) >= 10 {
				actual := int64(binary.BigEndian.Uint64(stream[2:10]))
				tab := lenTable(actual)
				v := tab[int(m.Val)%len(tab)]
				// a legal huge claim makes the node reserve that much: rare
				if m.Pos%16 == 0 {
					v = specMaxFrame - 1 - m.Val
					legalHuge = true
				}
				binary.BigEndian.PutUint64(stream[2:10], uint64(v))
			}
		case "trunc":
			stream = stream[:1+int(m.Pos)%len(stream)]
		case "append":
			stream = append(stream, a.Tail...)
		case "payload":
			for i := 10; i < len(stream); i++ {
				stream[i] = byte(int64(i)*31 + m.Val*7 + m.Pos)
			}
		case "dup":
			if len(stream) < 1<<16 {
				stream = append(stream, stream[1:]...)
			}
		}
	}
	return stream, legalHuge
}

func exec(run *core.Run, pl interface{}) {
	p := pl.(*plan)
	data, err := buildData()
	if err != nil {
		run.Fail("harness-error", "", "metadata: %v", err)
		return
	}
	c, err := clustersim.New(filepath.Join(run.Scratch, "c"), data, p.Index)
	if err != nil {
		run.Fail("harness-error", "", "cluster: %v", err)
		return
	}
	defer c.Close()
	rec := &recorder{}
	verifhook.SetDial(func(network, address string, timeout time.Duration) (net.Conn, error, bool) {
		conn, err := c.Net.Dial(address, timeout)
		if err != nil {
			return nil, err, true
		}
		rc := &recConn{Conn: conn, r: rec}
		rec.mu.Lock()
		rec.conns = append(rec.conns, rc)
		rec.mu.Unlock()
		return rc, nil, true
	})
	rp, _ := data.RetentionPolicy(storesim.DB, storesim.RP)
	shard := rp.ShardGroups[0].Shards[0].ID
	n1, n2 := c.Node(1), c.Node(2)
	target := clustersim.Addr(2)
	for _, n := range c.Nodes {
		if err := n.Sim.Store.CreateShard(storesim.DB, storesim.RP, shard, true); err != nil {
			run.Fail("harness-error", "", "CreateShard: %v", err)
			return
		}
	}
	base := models.MustNewPoint("m0", models.NewTags(map[string]string{"a": "x"}), models.Fields{"f": 1.5, "i": int64(3)}, t0.Add(time.Second))
	if err := n2.Sim.Store.WriteToShard(shard, []models.Point{base}); err != nil {
		run.Fail("harness-error", "", "WriteToShard: %v", err)
		return
	}
	// every point that reaches the storage layer of the target must be a point
	n2.Store.OnWrite = func(id uint64, pts []models.Point) error {
		for i, pt := range pts {
			if pt == nil {
				run.Fail("undecodable-point-reached-storage", "", "WriteToShard(%d) on the target node was handed %d points of which #%d is nil: an undecodable point inside a valid write request was passed on to the storage layer", id, len(pts), i)
				return fmt.Errorf("nil point")
			}
			if len(pt.Key()) == 0 {
				run.Fail("undecodable-point-reached-storage", "empty-key", "WriteToShard(%d) on the target node was handed a point with an empty series key", id)
				return fmt.Errorf("bad point")
			}
			if _, err := pt.Fields(); err != nil {
				run.Fail("undecodable-point-reached-storage", "bad-fields", "WriteToShard(%d) on the target node was handed a point whose fields do not decode: %v", id, err)
				return fmt.Errorf("bad point")
			}
		}
		return nil
	}

	// 1. message and stream round trips
	messageRoundTrips(run, p, shard)
	if run.Failed() {
		return
	}
	streamRoundTrip(run, c.Net, p)
	if run.Failed() {
		return
	}

	// 2. corpus of well-formed request streams: real client calls node1 -> node2
	m0 := &influxql.Measurement{Database: storesim.DB, RetentionPolicy: storesim.RP, Name: "m0"}
	opt := query.IteratorOptions{Expr: influxql.MustParseExpr(`"f"`), StartTime: influxql.MinTime, EndTime: influxql.MaxTime, Ascending: true}
	calls := []struct {
		name string
		f    func() error
	}{
		{"WriteShard", func() error {
			return n1.SW.WriteShard(shard, 2, []models.Point{models.MustNewPoint("zz", models.NewTags(map[string]string{"a": "x"}), models.Fields{"f": 2.0}, t0.Add(2*time.Second))})
		}},
		{"ExecuteStatement", func() error {
			return n1.ME.ExecuteStatement(influxql.MustParseStatement(`DROP SERIES FROM "nosuchmeasurement"`), storesim.DB)
		}},
		{"TaskManagerStatement", func() error {
			_, err := n1.ME.TaskManagerStatement(2, influxql.MustParseStatement(`SHOW QUERIES`))
			return err
		}},
		{"MeasurementNames", func() error { _, err := n1.ME.MeasurementNames(2, storesim.DB, "", nil); return err }},
		{"TagKeys", func() error { _, err := n1.ME.TagKeys(2, []uint64{shard}, nil); return err }},
		{"TagValues", func() error {
			_, err := n1.ME.TagValues(2, []uint64{shard}, influxql.MustParseExpr(`_tagKey = 'a'`))
			return err
		}},
		{"SeriesSketches", func() error { _, _, err := n1.ME.SeriesSketches(2, storesim.DB); return err }},
		{"MeasurementsSketches", func() error { _, _, err := n1.ME.MeasurementsSketches(2, storesim.DB); return err }},
		{"FieldDimensions", func() error { _, _, err := n1.ME.FieldDimensions(2, []uint64{shard}, m0); return err }},
		{"MapType", func() error { _, err := n1.ME.MapType(2, []uint64{shard}, m0, "f"); return err }},
		{"IteratorCost", func() error { _, err := n1.ME.IteratorCost(2, []uint64{shard}, m0, opt); return err }},
		{"CreateIterator", func() error {
			itr, err := n1.ME.CreateIterator(2, []uint64{shard}, context.Background(), m0, opt)
			if err != nil {
				return err
			}
			if itr != nil {
				query.DrainIterator(itr)
			}
			return nil
		}},
		{"ReadFilter", func() error {
			src, err := types.MarshalAny(&storage.ReadSource{Database: storesim.DB, RetentionPolicy: storesim.RP})
			if err != nil {
				return err
			}
			rs, err := n1.ME.ReadFilter(2, []uint64{shard}, context.Background(), &datatypes.ReadFilterRequest{ReadSource: src, Range: datatypes.TimestampRange{Start: 0, End: math.MaxInt64}})
			if err != nil {
				return err
			}
			if rs != nil {
				for rs.Next() {
				}
				rs.Close()
			}
			return nil
		}},
		{"ReadGroup", func() error {
			src, err := types.MarshalAny(&storage.ReadSource{Database: storesim.DB, RetentionPolicy: storesim.RP})
			if err != nil {
				return err
			}
			rs, err := n1.ME.ReadGroup(2, []uint64{shard}, context.Background(), &datatypes.ReadGroupRequest{ReadSource: src, Range: datatypes.TimestampRange{Start: 0, End: math.MaxInt64}, Group: datatypes.GroupBy, GroupKeys: []string{"a"}})
			if err != nil {
				return err
			}
			if rs != nil {
				for g := rs.Next(); g != nil; g = rs.Next() {
					g.Close()
				}
				rs.Close()
			}
			return nil
		}},
		{"ListShards", func() error {
			_, err := coordinator.NewClient(nil, 5*time.Second).ListShards(target)
			return err
		}},
		{"RemoveShard", func() error {
			coordinator.NewClient(nil, 5*time.Second).RemoveShard(target, 999999)
			return nil
		}},
		{"RemoveHintedHandoff", func() error {
			coordinator.NewClient(nil, 5*time.Second).RemoveHintedHandoff(target, 77)
			return nil
		}},
	}
	var corpus [][]byte
	var writeHead []byte
	replyTypes := map[byte]bool{}
	sentBefore := map[*recConn]int{}
	rcvdBefore := map[*recConn]int{}
	for _, cl := range calls {
		if err := cl.f(); err != nil {
			run.Fail("well-formed-request-failed", cl.name, "the real client call %s against a healthy node failed: %v", cl.name, err)
			return
		}
		// what this call put on the wire: a new connection, or more bytes on a
		// pooled one (then without the multiplexer's header byte, put back here)
		rec.mu.Lock()
		for _, rc := range rec.conns {
			rc.mu.Lock()
			if d := rc.sent[sentBefore[rc]:]; len(d) > 0 {
				entry := append([]byte(nil), d...)
				if sentBefore[rc] > 0 {
					entry = append([]byte{rc.sent[0]}, entry...)
				}
				if len(entry) > 1 {
					corpus = append(corpus, entry)
					if cl.name == "WriteShard" && writeHead == nil {
						writeHead = []byte{entry[0], entry[1]}
					}
				}
			}
			if d := rc.rcvd[rcvdBefore[rc]:]; len(d) > 0 {
				replyTypes[d[0]] = true
			}
			sentBefore[rc], rcvdBefore[rc] = len(rc.sent), len(rc.rcvd)
			rc.mu.Unlock()
		}
		rec.mu.Unlock()
	}
	if len(corpus) < 10 || writeHead == nil {
		run.Fail("harness-error", "", "corpus capture: %d streams", len(corpus))
		return
	}
	run.ProbeN("corpus-streams", len(corpus))

	// 2b. frames on one connection are decoded independently: a write
	// request that names its database and policy, then - on the same
	// connection - one for the same shard and one for a shard the node does
	// not have, both without database and policy. Each must be handled as
	// what it says itself: the second writes exactly its own point, the third
	// (nothing to create the shard from) creates and writes nothing.
	{
		type wcall struct {
			id  uint64
			pts []string
		}
		var seen []wcall
		prev := n2.Store.OnWrite
		n2.Store.OnWrite = func(id uint64, pts []models.Point) error {
			c := wcall{id: id}
			for _, pt := range pts {
				if pt != nil {
					c.pts = append(c.pts, pt.String())
				}
			}
			seen = append(seen, c)
			return prev(id, pts)
		}
		const ghost = 424242
		mkReq := func(id uint64, named bool, name string) []byte {
			var r coordinator.WriteShardRequest
			r.SetShardID(id)
			if named {
				r.SetDatabase(storesim.DB)
				r.SetRetentionPolicy(storesim.RP)
			}
			r.AddPoints([]models.Point{models.MustNewPoint(name, models.NewTags(map[string]string{"a": "x"}), models.Fields{"f": 4.0}, t0.Add(3*time.Second))})
			b, _ := r.MarshalBinary()
			return b
		}
		conn, err := c.Net.Dial(target, 5*time.Second)
		if err != nil {
			run.Fail("harness-error", "", "dial for the frame sequence: %v", err)
			return
		}
		conn.Write([]byte{writeHead[0]})
		frames := []struct {
			id    uint64
			named bool
			name  string
		}{{shard, true, "fr0"}, {shard, false, "fr1"}, {ghost, false, "fr2"}}
		for i, fr := range frames {
			if err := coordinator.WriteTLV(conn, writeHead[1], mkReq(fr.id, fr.named, fr.name)); err != nil {
				run.Fail("well-formed-request-failed", "frame-sequence", "frame %d of a sequence of write requests on one connection could not be sent: %v", i, err)
				break
			}
			conn.SetReadDeadline(time.Now().Add(time.Minute))
			if _, _, err := coordinator.ReadTLV(conn); err != nil {
				run.Fail("well-formed-request-failed", "frame-sequence", "frame %d of a sequence of write requests on one connection got no answer: %v", i, err)
				break
			}
		}
		conn.Close()
		n2.Store.OnWrite = prev
		if run.Failed() {
			return
		}
		if n2.Sim.Store.Shard(ghost) != nil {
			run.Fail("request-decoded-with-fields-of-an-earlier-frame", "create-shard", "a write request without database and retention policy for shard %d created that shard on the node after an earlier request on the same connection had named them", ghost)
			return
		}
		// (the storage layer is asked about the third frame's shard too: that
		// attempt fails with "shard not found" and is what makes the service
		// look for a database and policy in the request)
		var own []wcall
		for _, w := range seen {
			if w.id == shard {
				own = append(own, w)
			}
		}
		if len(own) != 2 || len(own[0].pts) != 1 || len(own[1].pts) != 1 || !strings.HasPrefix(own[0].pts[0], "fr0,") || !strings.HasPrefix(own[1].pts[0], "fr1,") {
			run.Fail("request-decoded-with-fields-of-an-earlier-frame", "points", "three write requests on one connection (fr0 and fr1 to shard %d, fr2 to a shard the node lacks) reached the storage layer as %v", shard, seen)
			return
		}
		run.Probe("frame-sequence-on-one-connection")
	}

	// 3. hostile peer
	alive := func(what string) bool {
		type res struct {
			typ influxql.DataType
			err error
		}
		done := make(chan res, 1)
		go func() {
			typ, err := n1.ME.MapType(2, []uint64{shard}, m0, "f")
			done <- res{typ, err}
		}()
		select {
		case r := <-done:
			// The answer itself is not judged: the inter-node port carries
			// administrative requests too (remove shard, drop statements), and
			// a damaged stream may happen to be one.
			if r.err != nil {
				run.Fail("node-unusable-after-hostile-stream", "", "after %s a well-formed type lookup on the node failed: %v", what, r.err)
				return false
			}
		case <-time.After(2 * time.Minute):
			run.Fail("node-unusable-after-hostile-stream", "hang", "after %s a well-formed type lookup on the node did not return within 2 simulated minutes", what)
			return false
		}
		return true
	}
	for ai := range p.Attacks {
		a := &p.Attacks[ai]
		core.Progress()
		stream, legalHuge := buildStream(a, corpus, writeHead, shard)
		run.Op("attack")
		what := fmt.Sprintf("stream %d (%d bytes, base %d, mutations %v, head % x)", ai, len(stream), a.Base, a.Muts, stream[:min(len(stream), 24)])
		run.Logf("%s", what)
		if len(a.Muts) == 0 && a.Base >= 0 {
			run.Probe("attack-wellformed")
		} else {
			run.Probe("attack-malformed")
		}
		pol := simnet.NoFault
		pol.Fragment = a.Frag
		pol.Latency = time.Duration(a.Lat) * time.Millisecond
		// (a) the handler on a goroutine the simulator watches
		var ms0, ms1 runtime.MemStats
		runtime.ReadMemStats(&ms0)
		cl, sv := c.Net.Pipe(pol)
		done := make(chan interface{}, 1)
		go func() {
			defer func() {
				r := recover()
				if r != nil {
					// where it panicked: the frames of the repository, top down
					var fr []string
					for _, l := range strings.Split(string(debug.Stack()), "\n") {
						if strings.Contains(l, "/repo/") {
							fr = append(fr, strings.TrimSpace(l))
						}
					}
					if len(fr) > 8 {
						fr = fr[:8]
					}
					r = fmt.Sprintf("%v [%s]", r, strings.Join(fr, " <- "))
				}
				done <- r
			}()
			n2.Svc.VerifHandleConn(sv)
		}()
		cl.Write(stream[1:]) // the multiplexer strips the first byte
		var reply []byte
		if a.Hold {
			cl.SetReadDeadline(time.Now().Add(10 * time.Second))
			reply, _ = io.ReadAll(io.LimitReader(cl, 1<<20))
		}
		cl.Close()
		select {
		case r := <-done:
			if r != nil {
				run.Fail("node-crash", "", "the connection handler panicked on %s: %v", what, r)
				return
			}
		case <-time.After(10 * time.Minute):
			run.Fail("handler-never-returns", "", "the connection handler is still running 10 simulated minutes after the peer closed the connection of %s", what)
			return
		}
		runtime.ReadMemStats(&ms1)
		if d := ms1.TotalAlloc - ms0.TotalAlloc; d > specMaxFrame+(256<<20) {
			run.Fail("allocation-exceeds-max-frame", "", "serving %s allocated %d bytes; the largest legal frame is %d", what, d, specMaxFrame)
			return
		}
		if legalHuge {
			run.Probe("legal-huge-claim")
		}
		if len(reply) > 0 {
			run.Probe("attack-got-reply")
			// What the node answers is not judged: after an unknown type byte
			// the node resynchronises on whatever follows, and a backup request
			// is answered with a raw archive stream.
			if replyTypes[reply[0]] {
				run.Probe("attack-got-known-reply-type")
			}
		}
		if run.Failed() {
			return
		}
		if !alive(what) {
			return
		}
		// (b) once more through the real multiplexer and accept loop; a huge
		// legal claim is not repeated (it would reserve another gigabyte)
		if !legalHuge {
			if conn, err := c.Net.Dial(target, time.Second); err == nil {
				conn.Write(stream)
				if a.Hold {
					conn.SetReadDeadline(time.Now().Add(2 * time.Second))
					io.Copy(io.Discard, io.LimitReader(conn, 1<<20))
				}
				conn.Close()
				time.Sleep(time.Second)
				if !alive(what + " through the multiplexer") {
					return
				}
			}
		}
	}
	// 4. the node still takes a real write and serves it back
	pt := models.MustNewPoint("after", models.NewTags(map[string]string{"a": "x"}), models.Fields{"f": 42.0}, t0.Add(9*time.Second))
	if err := n1.SW.WriteShard(shard, 2, []models.Point{pt}); err != nil {
		run.Fail("node-unusable-after-hostile-stream", "write", "a well-formed write after the hostile streams failed: %v", err)
		return
	}
	after := &influxql.Measurement{Database: storesim.DB, RetentionPolicy: storesim.RP, Name: "after"}
	itr, err := n1.ME.CreateIterator(2, []uint64{shard}, context.Background(), after, opt)
	if err != nil || itr == nil {
		run.Fail("node-unusable-after-hostile-stream", "read", "reading back the write made after the hostile streams: iterator %v, error %v", itr, err)
		return
	}
	fi, ok := itr.(query.FloatIterator)
	if !ok {
		run.Fail("node-unusable-after-hostile-stream", "read", "iterator of type %T", itr)
		return
	}
	fp, err := fi.Next()
	if err != nil || fp == nil || fp.Value != 42.0 || fp.Time != pt.Time().UnixNano() {
		run.Fail("node-unusable-after-hostile-stream", "read", "reading back the write made after the hostile streams: %+v, %v", fp, err)
	}
	itr.Close()
	run.NonTrivial = run.Probes["attack-malformed"] > 0
	run.Digest = fmt.Sprintf("a%d s%d/%d", len(p.Attacks), p.SType, len(p.Stream))
}

func describe(pl interface{}) interface{} {
	p := pl.(*plan)
	var as []string
	for _, a := range p.Attacks {
		as = append(as, fmt.Sprintf("base=%d muts=%v points=%d tail=%d frag=%d lat=%d hold=%v", a.Base, a.Muts, len(a.Points), len(a.Tail), a.Frag, a.Lat, a.Hold))
	}
	return map[string]interface{}{"index": p.Index, "attacks": as, "stream_type": p.SType, "stream_points": len(p.Stream), "options": fmt.Sprintf("%+v", p.Opt)}
}

var _ = bytes.Equal

func TestC15(t *testing.T) {
	core.Main(t, core.Harness{
		Property:       "C15",
		Gen:            genPlan,
		Exec:           exec,
		Bubble:         true,
		Warmup:         func() { storesim.Warmup() },
		Describe:       describe,
		RequiredProbes: []string{"attack-malformed", "attack-wellformed", "attack-got-reply", "stream-points-verified", "stream-empty-tag-value", "write-request-round-trip", "iterator-request-round-trip", "response-types-round-trip"},
		Real:           []string{"coordinator.Service.handleConn and every process*Request behind it", "tcp.Mux (second delivery of every stream)", "coordinator rpc.go Marshal/Unmarshal", "ShardWriter / MetaExecutor / coordinator.Client (corpus capture, liveness probes)", "query.IteratorEncoder / ReaderIterator / point codec", "tsdb.Store of both nodes"},
		Stub:           []string{"meta.Client over generated metadata", "Service.Server (join/leave/reset are not driven)", "hinted handoff"},
		Assumptions:    []string{"the maximum frame size is the documented 1 GiB", "allocation is observed as the growth of runtime.MemStats.TotalAlloc while the stream is served (+256 MiB slack for the rest of the process)"},
		Rule:           "a run = two real data nodes; message and stream round trips with generated values (5 point types, tags with empty values, aux values of every kind incl. typed nils, nil points; iterator options; write requests), then 1-5 hostile streams built from recorded well-formed request streams by 0-3 mutations (bit flip, type byte, length prefix from a table of negative/huge/off-by-one values, truncation, garbage tail, random payload, repeated frame), or valid write envelopes around valid/damaged/random point bytes, or raw noise, over a fragmenting/slow connection; non-trivial = at least one malformed stream",
	})
}
