// C10 — deletes remove exactly the targeted data, permanently.
package c10

import (
	"path/filepath"
	"testing"

	"pgregory.net/rapid"

	"verifsim/core"
	"verifsim/storesim"
)

var profile = storesim.Profile{
	Name: "C10", WWrite: 26, WBig: 3, WSnapshot: 14, WCompact: 10, WCompactFiles: 5, WBurst: 4, WStagger: 5,
	WDelete: 18, WDropSeries: 6, WDropMeas: 4, WReopen: 6, WRead: 2,
	Windows: true, CheckReads: true, CheckListing: true, MaxOps: 40, MaxShards: 2,
}

func TestC10(t *testing.T) {
	core.Main(t, core.Harness{
		Property: "C10",
		Gen:      func(t *rapid.T) interface{} { return storesim.GenHPlan(t, &profile) },
		Exec: func(run *core.Run, pl interface{}) {
			h := &storesim.History{Run: run, Pr: &profile, Plan: pl.(*storesim.HPlan), Root: filepath.Join(run.Scratch, "store")}
			h.Exec()
			run.NonTrivial = run.Probes["delete-matched-series"] > 0
		},
		Bubble:         true,
		Warmup:         storesim.Warmup,
		Describe:       func(pl interface{}) interface{} { return storesim.DescribeHPlan(pl.(*storesim.HPlan)) },
		Tier:           "A",
		RequiredProbes: []string{"delete-matched-series", "window-delete", "window-dropseries", "window-dropmeas", "reopen", "compaction-full"},
		Real:           []string{"tsdb.Store", "tsdb.Shard", "tsm1 engine (WAL, cache, compactor, file store, tombstoner, iterators, array cursors)", "series file", "inmem and tsi1 index", "real files on tmpfs"},
		Stub:           []string{"none; background tickers are off, the driver issues every snapshot and compaction through the engine's own entry points"},
		Assumptions:    []string{"narrow reading of un-listing: a series emptied only cumulatively by several partial deletes may stay listed until compaction (DESIGN C10)"},
		Rule:           "a run = seeded history of writes, range deletes by tag predicate / measurement (inclusive, single-instant, open-ended), series and measurement drops, on 1-2 shards of one database, interleaved with snapshots (deletes parked inside the snapshot window), compactions and restarts; after every later step reads of every model series and the store listings must equal the model; non-trivial = a delete matched at least one series with data",
	})
}
