// C07 — acknowledged metadata changes are never lost; replicas converge.
//
// State-machine modes (tier A), run against the real storeFSM through the
// tag-guarded shim:
//
//	"snapshot": a log of commands is applied; at seeded positions a snapshot is
//	  taken (FSM.Snapshot), and only after j further commands have been
//	  applied is it persisted (Persist) - the interleaving hashicorp/raft
//	  produces, since it persists on its own goroutine while applies go on.
//	  The persisted image restored into a fresh state machine must equal the
//	  state at the snapshot position (point-in-time, full fidelity incl.
//	  deleted groups), and replaying the suffix on it must converge with the
//	  node that never restarted.
//	"accept": request bodies of every command type with present / absent /
//	  foreign / malformed extensions; whatever validateCommand (the execute
//	  endpoint's check) accepts is applied: Apply must not panic, because an
//	  accepted body is committed and replayed by every replica at every restart.
package c07

import (
	"bytes"
	"fmt"
	"io"
	"strings"
	"testing"
	"time"

	"github.com/hashicorp/raft"
	"github.com/influxdata/influxdb/services/meta"
	"pgregory.net/rapid"

	"verifsim/core"
	"verifsim/metacmd"
)

type snapAt struct {
	Pos   int // snapshot taken after command Pos
	Delay int // persisted after Delay more commands
}

type body struct {
	Desc string
	Data []byte
}

type plan struct {
	Mode   string
	AutoRP bool
	Log    []metacmd.Cmd
	Snaps  []snapAt
	Bodies []body
	// cluster mode
	Cluster []cop
	// RaftSnap: raft snapshot threshold of the cluster mode's meta nodes (0 =
	// raft's default 8192, never reached); with a small one raft snapshots
	// the state machine, truncates its log and brings lagging or restarted
	// nodes up to date by installing the snapshot
	RaftSnap int
	Shrink   int // cluster mode: meta nodes removed through /remove after the faults (0-2)
}

func genSetup(t *rapid.T) []metacmd.Cmd {
	// a few commands that make later ones meaningful (nodes, a database, a policy, groups)
	var out []metacmd.Cmd
	n := rapid.IntRange(1, 4).Draw(t, "setup.nodes")
	for i := 0; i < n; i++ {
		out = append(out, metacmd.CmdCreateDataNode(fmt.Sprintf("d%d:8086", i), fmt.Sprintf("d%d:8088", i)))
	}
	out = append(out, metacmd.CmdCreateDatabase("db0", metacmd.RP("rp0", 0, time.Hour, rapid.IntRange(1, 3).Draw(t, "setup.rf"))))
	t0 := time.Date(2000, 1, 1, 0, 0, 0, 0, time.UTC).UnixNano()
	for i := 0; i < rapid.IntRange(0, 3).Draw(t, "setup.groups"); i++ {
		out = append(out, metacmd.CmdCreateShardGroup("db0", "rp0", t0+int64(i)*int64(time.Hour)))
	}
	return out
}

func genPlan(t *rapid.T) interface{} {
	p := &plan{AutoRP: rapid.Bool().Draw(t, "autorp")}
	if rapid.IntRange(0, 5).Draw(t, "cluster") == 0 {
		genCluster(t, p)
		return p
	}
	if rapid.IntRange(0, 2).Draw(t, "mode") == 0 {
		p.Mode = "accept"
		p.Log = genSetup(t)
		n := rapid.IntRange(1, 12).Draw(t, "nbodies")
		for i := 0; i < n; i++ {
			l := fmt.Sprintf("b%d", i)
			typ := rapid.IntRange(0, 40).Draw(t, l+".type")
			valid := metacmd.GenCmd(t, l+".valid")
			var b body
			switch rapid.IntRange(0, 6).Draw(t, l+".shape") {
			case 0: // no extension at all
				b = body{fmt.Sprintf("type=%d without extension", typ), metacmd.CommandRaw(typ, 0, nil)}
			case 1: // another command's extension
				other := valid.Type
				b = body{fmt.Sprintf("type=%d with the extension of %s", typ, metacmd.TypeNames[other]), append(metacmd.CommandRaw(typ, 0, nil), valid.Data[2:]...)}
			case 2: // own extension, empty payload
				b = body{fmt.Sprintf("type=%d with an empty extension payload", typ), metacmd.CommandRaw(typ, metacmd.ExtField(typ), nil)}
			case 3: // own extension, garbage payload
				g := rapid.SliceOfN(rapid.Byte(), 0, 24).Draw(t, l+".garbage")
				b = body{fmt.Sprintf("type=%d with %d garbage payload bytes", typ, len(g)), metacmd.CommandRaw(typ, metacmd.ExtField(typ), g)}
			case 4: // truncated valid command
				cut := rapid.IntRange(0, len(valid.Data)).Draw(t, l+".cut")
				b = body{fmt.Sprintf("%s truncated to %d bytes", valid.Desc, cut), valid.Data[:cut]}
			case 5: // valid command followed by extra bytes
				extra := rapid.SliceOfN(rapid.Byte(), 1, 8).Draw(t, l+".extra")
				b = body{valid.Desc + " + trailing bytes", append(append([]byte(nil), valid.Data...), extra...)}
			default:
				b = body{valid.Desc, valid.Data}
			}
			p.Bodies = append(p.Bodies, b)
		}
		return p
	}
	p.Mode = "snapshot"
	p.Log = genSetup(t)
	n := rapid.IntRange(1, 40).Draw(t, "n")
	bias := metacmd.GenBias(t, "bias")
	for i := 0; i < n; i++ {
		l := fmt.Sprintf("c%d", i)
		// bias to commands that edit nested slices in place
		switch rapid.IntRange(0, 9).Draw(t, l+".bias") {
		case 0:
			p.Log = append(p.Log, metacmd.CmdRemoveShardOwner(uint64(rapid.IntRange(1, 8).Draw(t, l+".shard")), uint64(rapid.IntRange(1, 5).Draw(t, l+".node"))))
		case 1:
			p.Log = append(p.Log, metacmd.CmdCopyShardOwner(uint64(rapid.IntRange(1, 8).Draw(t, l+".shard")), uint64(rapid.IntRange(1, 5).Draw(t, l+".node"))))
		case 2:
			p.Log = append(p.Log, metacmd.CmdDeleteDataNode(uint64(rapid.IntRange(1, 5).Draw(t, l+".node"))))
		case 3:
			p.Log = append(p.Log, metacmd.CmdSetPrivilege(rapid.SampledFrom([]string{"u0", "u1"}).Draw(t, l+".u"), "db0", rapid.IntRange(0, 3).Draw(t, l+".p")))
		default:
			p.Log = append(p.Log, metacmd.GenCmdBiased(t, l, bias))
		}
	}
	ns := rapid.IntRange(1, 4).Draw(t, "nsnaps")
	for i := 0; i < ns; i++ {
		p.Snaps = append(p.Snaps, snapAt{Pos: rapid.IntRange(0, len(p.Log)-1).Draw(t, fmt.Sprintf("s%d.pos", i)), Delay: rapid.IntRange(0, 12).Draw(t, fmt.Sprintf("s%d.delay", i))})
	}
	return p
}

type memSink struct {
	bytes.Buffer
}

func (s *memSink) ID() string    { return "sim" }
func (s *memSink) Cancel() error { return nil }
func (s *memSink) Close() error  { return nil }

func newFSM(p *plan) *meta.VerifFSM {
	c := meta.NewConfig()
	c.RetentionAutoCreate = p.AutoRP
	return meta.VerifNewFSM(c)
}

func applyOne(f *meta.VerifFSM, idx int, data []byte) (res interface{}, panicked string) {
	defer func() {
		if r := recover(); r != nil {
			panicked = fmt.Sprint(r)
		}
	}()
	return f.Apply(&raft.Log{Index: uint64(idx + 2), Term: 1, Type: raft.LogCommand, Data: data}), ""
}

func execAccept(run *core.Run, p *plan) {
	f := newFSM(p)
	for i, c := range p.Log {
		if _, pan := applyOne(f, i, c.Data); pan != "" {
			run.Fail("apply-panicked", metacmd.TypeNames[c.Type], "setup %s: %s", c.Desc, pan)
			return
		}
	}
	for i, b := range p.Bodies {
		core.Progress()
		err := meta.VerifValidateCommand(b.Data)
		if err != nil {
			run.Probe("body-rejected-by-endpoint")
			run.Logf("body %d %s: rejected: %v", i, b.Desc, err)
			continue
		}
		run.Probe("body-accepted-by-endpoint")
		// legacy commands that consult the live raft state cannot be applied without raft
		if len(b.Data) >= 2 && b.Data[0] == 0x08 && (b.Data[1] == metacmd.CreateNode || b.Data[1] == metacmd.RemovePeer) {
			continue
		}
		before := metacmd.CanonicalFull(f.Data())
		_, pan := applyOne(f, len(p.Log)+i, b.Data)
		run.Logf("body %d %s: accepted; apply panicked=%q", i, b.Desc, pan)
		if pan != "" {
			run.Fail("accepted-body-panics-apply", "", "request body %d (%s, % x) passes the execute endpoint's validation but makes the state machine panic when applied: %s", i, b.Desc, b.Data, pan)
			return
		}
		_ = before
		run.NonTrivial = true
	}
	run.Digest = fmt.Sprint(len(p.Bodies))
}

func execSnapshot(run *core.Run, p *plan) {
	live := newFSM(p)
	type pending struct {
		snap     raft.FSMSnapshot
		pos      int
		due      int
		wantFull string
	}
	var pend []pending
	persistDue := func(i int) bool {
		keep := pend[:0]
		for _, pd := range pend {
			if pd.due > i {
				keep = append(keep, pd)
				continue
			}
			sink := &memSink{}
			if err := pd.snap.Persist(sink); err != nil {
				run.Fail("snapshot-failed", "", "Persist of the snapshot taken at position %d: %v", pd.pos, err)
				return false
			}
			restored := newFSM(p)
			if err := restored.Restore(io.NopCloser(bytes.NewReader(sink.Bytes()))); err != nil {
				run.Fail("restore-failed", "", "Restore of the snapshot taken at position %d: %v", pd.pos, err)
				return false
			}
			got := metacmd.CanonicalFull(restored.Data())
			if got != pd.wantFull {
				cls := "snapshot-not-point-in-time"
				if pd.due == pd.pos {
					cls = "snapshot-restore-not-faithful"
				}
				site := ""
				if metacmd.EpochTruncation(live.Data()) {
					site = "after-truncation-at-the-unix-epoch"
				}
				run.Fail(cls, site, "snapshot taken after command %d (%s), persisted after command %d: the restored metadata differs from the state at the snapshot position:\n%s", pd.pos, p.Log[pd.pos].Desc, i, diff(pd.wantFull, got))
				return false
			}
			run.Probe("snapshot-verified")
			if pd.due > pd.pos {
				run.Probe("snapshot-persisted-after-later-commands")
			}
			// a node restarted from this snapshot replays the suffix and must converge
			for k := pd.pos + 1; k <= i; k++ {
				if _, pan := applyOne(restored, k, p.Log[k].Data); pan != "" {
					run.Fail("apply-panicked", metacmd.TypeNames[p.Log[k].Type], "replay of %s on the restored node: %s", p.Log[k].Desc, pan)
					return false
				}
			}
			a, b := metacmd.Canonical(live.Data(), true), metacmd.Canonical(restored.Data(), true)
			if a != b {
				run.Fail("restarted-node-diverged", "", "a node restored from the snapshot at position %d and replaying commands %d..%d differs from the node that never restarted:\n%s", pd.pos, pd.pos+1, i, diff(a, b))
				return false
			}
		}
		pend = keep
		return true
	}
	for i, c := range p.Log {
		core.Progress()
		run.Op(metacmd.TypeNames[c.Type])
		res, pan := applyOne(live, i, c.Data)
		if pan != "" {
			run.Fail("apply-panicked", metacmd.TypeNames[c.Type], "step %d %s: %s", i, c.Desc, pan)
			return
		}
		run.Logf("step %d %s -> %v", i, c.Desc, res)
		for _, s := range p.Snaps {
			if s.Pos == i {
				snap, err := live.Snapshot()
				if err != nil {
					run.Fail("snapshot-failed", "", "Snapshot: %v", err)
					return
				}
				due := i + s.Delay
				if due >= len(p.Log) {
					due = len(p.Log) - 1
				}
				pend = append(pend, pending{snap: snap, pos: i, due: due, wantFull: metacmd.CanonicalFull(live.Data())})
				run.Logf("  snapshot taken at %d, to be persisted after %d", i, due)
			}
		}
		if !persistDue(i) {
			return
		}
	}
	run.NonTrivial = run.Probes["snapshot-persisted-after-later-commands"] > 0
	run.Digest = fmt.Sprint(len(p.Log))
}

func exec(run *core.Run, pl interface{}) {
	p := pl.(*plan)
	if p.Mode == "cluster" {
		execCluster(run, p)
	} else if p.Mode == "accept" {
		execAccept(run, p)
	} else {
		execSnapshot(run, p)
	}
}

func diff(a, b string) string {
	al, bl := strings.Split(a, "\n"), strings.Split(b, "\n")
	am, bm := map[string]bool{}, map[string]bool{}
	for _, l := range al {
		am[l] = true
	}
	for _, l := range bl {
		bm[l] = true
	}
	var out []string
	for _, l := range al {
		if !bm[l] {
			out = append(out, "- "+l)
		}
	}
	for _, l := range bl {
		if !am[l] {
			out = append(out, "+ "+l)
		}
	}
	if len(out) > 12 {
		out = append(out[:12], "…")
	}
	return strings.Join(out, "\n")
}

func describe(pl interface{}) interface{} {
	p := pl.(*plan)
	d := map[string]interface{}{"mode": p.Mode, "retention_autocreate": p.AutoRP, "raft_snapshot_threshold": p.RaftSnap}
	var log []string
	for _, c := range p.Log {
		log = append(log, c.Desc)
	}
	d["log"] = log
	if p.Mode == "cluster" {
		var ops []string
		for _, o := range p.Cluster {
			ops = append(ops, fmt.Sprintf("%s(node%d,n=%d,%dms)", o.Kind, o.Node, o.N, o.Ms))
		}
		d["cluster_ops"] = ops
	}
	if p.Mode == "accept" {
		var bs []string
		for _, b := range p.Bodies {
			bs = append(bs, fmt.Sprintf("%s [% x]", b.Desc, b.Data))
		}
		d["bodies"] = bs
	} else {
		d["snapshots"] = fmt.Sprint(p.Snaps)
	}
	return d
}

func TestC07(t *testing.T) {
	core.Main(t, core.Harness{
		Property:       "C07",
		Gen:            genPlan,
		Exec:           exec,
		Bubble:         true,
		Describe:       describe,
		Tier:           "B",
		RequiredProbes: []string{"snapshot-verified", "snapshot-persisted-after-later-commands", "body-accepted-by-endpoint", "body-rejected-by-endpoint", "cluster-converged", "change-acknowledged-with-a-node-unreachable", "meta-node-restarted", "fault-aimed-at-leader", "command-outlasts-fault"},
		Real:           []string{"meta storeFSM.Apply / Snapshot / storeFSMSnapshot.Persist / Restore", "meta.Data.Clone, marshal/unmarshal", "handler validateCommand", "cluster mode: meta.Service (HTTP handler: execute with leader redirect, join, status, snapshot long poll), meta store, hashicorp/raft with bolt log/stable store and file snapshot store, the raft network layer behind tcp.Mux, meta.Client (retryUntilExec, polling) - three nodes on the simulated network and clock"},
		Stub:           []string{"snapshot/accept modes drive the state machine directly (no raft); legacy CreateNode/RemovePeer bodies are validated but not applied (they consult live raft state)", "cluster mode: no data nodes; a stopped node is closed cleanly (its files are what it left), not cut at a crash point"},
		Assumptions: []string{
			"cluster mode faults: stop/restart of any node or the current leader, nodes that refuse incoming connections on both ports, nodes whose raft links are cut in both directions while their HTTP port stays reachable (a leader that has lost its followers can still be talked to); a command may outlast a fault and must return once faults stop; bolt's own crash consistency is not explored; raft's snapshot threshold (8192 entries) is not reached, so install-snapshot between live nodes is not exercised there (the snapshot mode covers the state machine's side of it)",
		},
		Rule: "snapshot mode: a log of setup + 1-40 commands (biased to owner-list and privilege edits) with 1-4 snapshots taken at seeded positions and persisted 0-12 commands later; restored image must equal the state at the snapshot position in full (incl. deleted groups) and a node restarted from it must converge after replaying the suffix; accept mode: 1-12 request bodies of every command type with absent / foreign / empty / garbage / truncated / over-long extensions - whatever the endpoint's validation accepts must apply without panic; cluster mode (one run in six): three real meta nodes joined into a raft cluster, 3-18 operations (create/drop database, create retention policy, create user through the real client; stop, restart, isolate, heal a node or the leader; sleeps up to 20 s), then heal, 45 simulated seconds to settle: every acknowledged change present on every node, all nodes equal, a new command commits; non-trivial = a snapshot persisted after later commands, an accepted body applied, or a cluster run with a fault",
	})
}
