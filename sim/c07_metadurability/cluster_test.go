package c07

// Cluster mode: three real meta nodes (meta.Service: HTTP handler, store,
// hashicorp/raft with its bolt log/stable store and file snapshot store, the
// raft network layer behind the real tcp.Mux) on the simulated network and
// clock, and a real meta.Client that executes commands against them while
// nodes are stopped, restarted, and cut off from incoming connections.
//
// Oracles: every acknowledged change is present on every node once faults
// have stopped and the cluster has had bounded simulated time to settle (an
// acknowledged drop stays dropped); all nodes hold the same metadata; after
// the heal a new command commits within bounded simulated time.

import (
	"encoding/json"
	"fmt"
	"io"
	"net"
	"net/http"
	"net/url"
	"os"
	"path/filepath"
	"runtime"
	"sort"
	"strings"
	"sync"
	"time"

	"github.com/influxdata/influxdb/pkg/verifhook"
	"github.com/influxdata/influxdb/services/meta"
	"github.com/influxdata/influxdb/tcp"
	"pgregory.net/rapid"

	"verifsim/core"
	"verifsim/metacmd"
	"verifsim/simnet"
)

type cop struct {
	Kind string // createdb, dropdb, createuser, sleep, stop, start, isolate, heal
	N    int
	Node int
	Ms   int
}

func genCluster(t *rapid.T, p *plan) {
	p.Mode = "cluster"
	p.RaftSnap = rapid.SampledFrom([]int{0, 2, 4, 9}).Draw(t, "c.raftsnap")
	p.Shrink = rapid.SampledFrom([]int{0, 0, 1, 2}).Draw(t, "c.shrink")
	n := rapid.IntRange(3, 18).Draw(t, "c.nops")
	for i := 0; i < n; i++ {
		l := fmt.Sprintf("c.op%d", i)
		o := cop{Node: rapid.IntRange(0, 2).Draw(t, l+".node"), N: rapid.IntRange(0, 5).Draw(t, l+".n")}
		switch k := rapid.IntRange(0, 17).Draw(t, l+".kind"); {
		case k == 16:
			// a slow node: everything sent to it arrives late (up to twice
			// raft's election timeout), on connections made from now on
			o.Kind = rapid.SampledFrom([]string{"slow", "slow", "slow-leader"}).Draw(t, l+".wk")
			o.Ms = rapid.SampledFrom([]int{150, 600, 2000}).Draw(t, l+".lat")
		case k == 17:
			// a lossy link: every raft connection to the node is reset after
			// a few hundred to a few thousand bytes (messages lost in flight)
			o.Kind = rapid.SampledFrom([]string{"flaky", "flaky", "flaky-leader"}).Draw(t, l+".fk")
			o.Ms = rapid.SampledFrom([]int{150, 700, 3000}).Draw(t, l+".bytes")
		case k < 6:
			o.Kind = "createdb"
		case k < 7:
			o.Kind = "dropdb"
		case k < 8:
			o.Kind = "createuser"
		case k < 10:
			o.Kind = "sleep"
			o.Ms = rapid.SampledFrom([]int{10, 300, 1500, 5000, 20000}).Draw(t, l+".ms")
		case k < 12:
			o.Kind = rapid.SampledFrom([]string{"stop", "stop", "stop-leader"}).Draw(t, l+".sk")
		case k < 13:
			o.Kind = "start"
		case k < 15:
			o.Kind = rapid.SampledFrom([]string{"isolate", "isolate", "isolate-leader"}).Draw(t, l+".ik")
		default:
			o.Kind = rapid.SampledFrom([]string{"heal", "heal", "partition", "partition-leader"}).Draw(t, l+".hk")
		}
		if o.Kind == "createdb" && rapid.IntRange(0, 3).Draw(t, l+".rp") == 0 {
			o.Kind = "createrp"
		}
		p.Cluster = append(p.Cluster, o)
	}
}

type mnode struct {
	id         int
	http, raft string
	dir        string
	svc        *meta.Service
	rln        *simnet.Listener
	up         bool
	opened     chan error
}

type mcluster struct {
	run      *core.Run
	nw       *simnet.Net
	nodes    []*mnode
	mu       sync.Mutex
	isolated map[string]bool // addresses that refuse incoming connections
	slow     map[string]time.Duration // addresses whose incoming connections deliver late
	flaky    map[string]int64         // raft addresses whose incoming connections are reset after that many bytes
	cut      map[string]bool // raft addresses whose raft links to and from everybody else are cut
	hc       *http.Client
}

func (c *mcluster) start(n *mnode) error {
	cfg := meta.NewConfig()
	cfg.Dir = n.dir
	cfg.BindAddress = n.raft
	cfg.HTTPBindAddress = n.http
	cfg.LoggingEnabled = false
	cfg.ClusterTracing = os.Getenv("VERIF_RAFT_TRACE") != ""
	svc := meta.NewService(cfg)
	ln, err := c.nw.Listen(n.raft)
	if err != nil {
		return err
	}
	mux := tcp.NewMux()
	svc.RaftListener = mux.Listen(meta.MuxHeader)
	go mux.Serve(ln)
	// Open serves HTTP at once and then waits until the node knows a leader
	// (a fresh node: until it has been joined to a cluster), as influxd-meta does.
	opened := make(chan error, 1)
	go func() { opened <- svc.Open() }()
	n.svc, n.rln, n.up, n.opened = svc, ln, true, opened
	select {
	case err := <-opened:
		if err != nil {
			ln.Close()
			n.up = false
			return err
		}
		opened <- nil
	case <-time.After(2 * time.Second):
	}
	return nil
}

func (c *mcluster) stop(n *mnode) {
	if !n.up {
		return
	}
	n.up = false
	n.svc.Close()
	n.rln.Close()
}

func (c *mcluster) get(url string) ([]byte, int, error) {
	resp, err := c.hc.Get(url)
	if err != nil {
		return nil, 0, err
	}
	defer resp.Body.Close()
	b, err := io.ReadAll(resp.Body)
	return b, resp.StatusCode, err
}

func execCluster(run *core.Run, p *plan) {
	nw := simnet.New()
	c := &mcluster{run: run, nw: nw, isolated: map[string]bool{}, cut: map[string]bool{}, slow: map[string]time.Duration{}, flaky: map[string]int64{}}
	verifhook.SetFault(func(ev string, args ...interface{}) error {
		if ev != "meta.raft.dial" || len(args) < 2 {
			return nil
		}
		from, _ := args[0].(string)
		to, _ := args[1].(string)
		c.mu.Lock()
		defer c.mu.Unlock()
		if c.cut[from] || c.cut[to] {
			return fmt.Errorf("dial tcp %s: connect: network is unreachable", to)
		}
		return nil
	})
	defer verifhook.ClearKnobs()
	verifhook.SetPoint(func(ev string, args ...interface{}) {
		switch ev {
		case "meta.fsm.snapshot":
			run.Probe("raft-snapshot-taken")
		case "meta.fsm.restore":
			run.Probe("raft-snapshot-restored")
		}
	})
	defer verifhook.SetPoint(nil)
	nw.PolicyFor = func(addr string, n int) simnet.Policy {
		c.mu.Lock()
		defer c.mu.Unlock()
		pol := simnet.NoFault
		if c.isolated[addr] {
			pol.Refuse = true
		}
		if strings.HasSuffix(addr, ":8089") {
			// raft links take a millisecond per hop. On a network without any
			// latency the simulated clock stands still across whole RPC
			// exchanges; raft's file snapshot store names a snapshot by term,
			// index and the millisecond it was created in, and two installs of
			// one snapshot within one (standing) millisecond collide - an
			// artefact no real network produces.
			pol.Latency = time.Millisecond
		}
		if d := c.slow[addr]; d > 0 {
			pol.Latency = d
		}
		if b := c.flaky[addr]; b > 0 {
			pol.ResetC2S = b
		}
		return pol
	}
	nw.OnFault = func(kind string) { run.Fault("net-" + kind) }
	verifhook.SetDial(nw.DialHook())
	verifhook.SetListen(func(network, addr string) (net.Listener, error, bool) {
		l, err := nw.Listen(addr)
		return l, err, true
	})
	defer func() {
		time.Sleep(5 * time.Second)
		verifhook.SetListen(nil)
		verifhook.SetDial(nil)
		verifhook.SetFault(nil)
	}()
	c.hc = &http.Client{Transport: &http.Transport{
		Dial:              func(network, addr string) (net.Conn, error) { return nw.Dial(addr, 5*time.Second) },
		DisableKeepAlives: true,
	}, Timeout: 30 * time.Second}
	for i := 0; i < 3; i++ {
		n := &mnode{id: i, http: fmt.Sprintf("m%d:8091", i), raft: fmt.Sprintf("m%d:8089", i), dir: filepath.Join(run.Scratch, fmt.Sprintf("meta%d", i))}
		c.nodes = append(c.nodes, n)
		if err := c.start(n); err != nil {
			run.Fail("harness-error", "", "start meta node %d: %v", i, err)
			return
		}
	}
	defer func() {
		for _, n := range c.nodes {
			c.stop(n)
		}
	}()
	// form the cluster the way the control tool does: join requests to the first node
	for i := 0; i < 3; i++ {
		var last string
		ok := false
		for try := 0; try < 20 && !ok; try++ {
			req, _ := http.NewRequest("POST", fmt.Sprintf("http://%s/join?addr=%s", c.nodes[0].http, c.nodes[i].http), nil)
			resp, err := c.hc.Do(req)
			if err != nil {
				last = err.Error()
				time.Sleep(time.Second)
				continue
			}
			b, _ := io.ReadAll(resp.Body)
			resp.Body.Close()
			if resp.StatusCode == 200 {
				ok = true
			} else {
				last = fmt.Sprintf("%d %s", resp.StatusCode, strings.TrimSpace(string(b)))
				time.Sleep(time.Second)
			}
		}
		if !ok {
			run.Fail("harness-error", "", "join of meta node %d failed: %s", i, last)
			return
		}
	}
	// Raft's snapshot knobs take effect when a node opens its raft state. The
	// cluster is formed with raft's own settings and then restarted node by
	// node with the small ones: the join handler holds the store's read lock
	// while it waits for raft to commit the new voter over the (1 ms) network,
	// and a state-machine snapshot waiting for the write lock meanwhile is not
	// a durable wait in a synctest bubble - simulated time, and with it the
	// network, would stand still.
	if p.RaftSnap > 0 {
		verifhook.SetKnob("meta.raft.snapshot_threshold", int64(p.RaftSnap))
		// Enough trailing entries for a follower to keep the entry a snapshot
		// ends at: with fewer, a node that was cut off as leader (it holds an
		// uncommitted entry beyond the snapshot's index) and then gets that
		// snapshot installed cannot compare the previous entry of the next
		// AppendEntries (hashicorp/raft 1.3.11 looks only at its log, not at
		// its snapshot) and is sent the snapshot over and over - a livelock of
		// the library that needs a snapshot newer than a follower's own log
		// tail by less than the trailing window, which raft's shipped 10240
		// trailing entries rule out.
		verifhook.SetKnob("meta.raft.trailing_logs", 8)
		verifhook.SetKnob("meta.raft.snapshot_interval", int64(2*time.Second))
		for _, n := range c.nodes {
			c.stop(n)
			if err := c.start(n); err != nil {
				run.Fail("meta-node-does-not-restart", "", "meta node %d does not start again from its own state: %v", n.id, err)
				return
			}
			time.Sleep(3 * time.Second)
		}
	}
	var servers []string
	for _, n := range c.nodes {
		servers = append(servers, n.http)
	}
	mc := meta.NewConfig()
	mc.Dir = filepath.Join(run.Scratch, "client")
	client := meta.NewClient(mc)
	client.SetMetaServers(servers)
	opened := make(chan error, 1)
	go func() { opened <- client.Open() }()
	select {
	case err := <-opened:
		if err != nil {
			run.Fail("harness-error", "", "client open: %v", err)
			return
		}
	case <-time.After(2 * time.Minute):
		run.Fail("harness-error", "", "client open did not return")
		return
	}
	defer client.Close()

	// model: databases/users whose creation (or drop) was acknowledged
	exists := map[string]string{} // name -> "yes" | "no" | "maybe"
	users := map[string]string{}
	rps := map[string]bool{} // db.rp acknowledged (checked only while the database still exists)
	// tainted: names touched by a command whose outcome never became known
	// while the run lasted (it may take effect at any later time)
	tainted := map[string]bool{}
	// A command may legitimately not return while a fault lasts (the client
	// waits for the change to reach the meta node it polls, which may be cut
	// off): it is then left running, its outcome unknown, and must return once
	// faults have stopped.
	type pendingCall struct {
		what string
		done chan error
	}
	var outstanding []pendingCall
	errStillRunning := fmt.Errorf("still running")
	call := func(what string, f func() error) (error, bool) {
		done := make(chan error, 1)
		go func() { done <- f() }()
		select {
		case err := <-done:
			return err, true
		case <-time.After(2 * time.Minute):
			outstanding = append(outstanding, pendingCall{what, done})
			run.Probe("command-outlasts-fault")
			return errStillRunning, true
		}
	}
	down := func() int {
		k := 0
		for _, n := range c.nodes {
			if !n.up || c.isolated[n.http] || c.cut[n.raft] || c.slow[n.raft] > 0 || c.flaky[n.raft] > 0 {
				k++
			}
		}
		return k
	}
	for i, o := range p.Cluster {
		if run.Failed() {
			return
		}
		core.Progress()
		run.Op(o.Kind)
		n := c.nodes[o.Node]
		if o.Kind == "stop-leader" || o.Kind == "isolate-leader" || o.Kind == "partition-leader" || o.Kind == "slow-leader" || o.Kind == "flaky-leader" {
			// the node the others currently follow
			for _, m := range c.nodes {
				if !m.up {
					continue
				}
				b, code, err := c.get(fmt.Sprintf("http://%s/status", m.http))
				if err != nil || code != 200 {
					continue
				}
				var st meta.MetaNodeStatus
				if json.Unmarshal(b, &st) == nil && st.Leader != "" {
					for _, cand := range c.nodes {
						if cand.raft == st.Leader {
							n = cand
							run.Probe("fault-aimed-at-leader")
						}
					}
					break
				}
			}
			o.Kind = strings.TrimSuffix(o.Kind, "-leader")
		}
		switch o.Kind {
		case "createrp":
			db := fmt.Sprintf("db%d", o.N)
			name := fmt.Sprintf("rp%d", o.Node)
			dur := time.Duration(o.N+1) * 24 * time.Hour
			one := 1
			err, ok := call("CreateRetentionPolicy", func() error {
				_, err := client.CreateRetentionPolicy(db, &meta.RetentionPolicySpec{Name: name, Duration: &dur, ReplicaN: &one}, false)
				return err
			})
			if !ok {
				return
			}
			run.Logf("op%d CreateRetentionPolicy(%s.%s) -> %v", i, db, name, err)
			if err == nil {
				rps[db+"."+name] = true
				run.Probe("change-acknowledged")
			}
		case "createdb":
			name := fmt.Sprintf("db%d", o.N)
			err, ok := call("CreateDatabase", func() error { _, err := client.CreateDatabase(name); return err })
			if !ok {
				return
			}
			run.Logf("op%d CreateDatabase(%s) with %d nodes unreachable -> %v", i, name, down(), err)
			if err == errStillRunning {
				tainted[name] = true
			}
			if err == nil {
				exists[name] = "yes"
				run.Probe("change-acknowledged")
				if down() > 0 {
					run.Probe("change-acknowledged-with-a-node-unreachable")
				}
			} else if exists[name] != "yes" {
				exists[name] = "maybe"
			}
		case "dropdb":
			name := fmt.Sprintf("db%d", o.N)
			err, ok := call("DropDatabase", func() error { return client.DropDatabase(name) })
			if !ok {
				return
			}
			run.Logf("op%d DropDatabase(%s) -> %v", i, name, err)
			if err != nil {
				// The outcome is unknown (e.g. "leadership lost while
				// committing log"): the drop may still take effect. A later
				// CreateDatabase of the name that the client answers from its
				// cache (the database is still there, nothing is proposed) is
				// not a change the meta service acknowledged, and the harness
				// cannot tell it from a proposed one - the name is not judged
				// any more.
				tainted[name] = true
			}
			// its retention policies go with it (also when the outcome is unknown)
			for key := range rps {
				if strings.HasPrefix(key, name+".") {
					delete(rps, key)
				}
			}
			if err == nil {
				exists[name] = "no"
				run.Probe("change-acknowledged")
			} else {
				exists[name] = "maybe"
			}
		case "createuser":
			name := fmt.Sprintf("u%d", o.N)
			err, ok := call("CreateUser", func() error { _, err := client.CreateUser(name, "pw", o.N == 0); return err })
			if !ok {
				return
			}
			run.Logf("op%d CreateUser(%s) -> %v", i, name, err)
			if err == nil {
				users[name] = "yes"
				run.Probe("change-acknowledged")
			} else if users[name] != "yes" {
				users[name] = "maybe"
			}
		case "sleep":
			time.Sleep(time.Duration(o.Ms) * time.Millisecond)
		case "stop":
			if n.up {
				c.stop(n)
				run.Fault("meta-node-stopped")
				run.Logf("op%d stop meta node %d", i, n.id)
			}
		case "start":
			if !n.up {
				if err := c.start(n); err != nil {
					run.Fail("meta-node-does-not-restart", "", "meta node %d does not start again from its own state: %v", n.id, err)
					return
				}
				run.Probe("meta-node-restarted")
				run.Logf("op%d start meta node %d", i, n.id)
			}
		case "isolate":
			c.mu.Lock()
			c.isolated[n.http], c.isolated[n.raft] = true, true
			c.mu.Unlock()
			run.Fault("meta-node-unreachable")
			run.Logf("op%d meta node %d refuses incoming connections", i, n.id)
		case "partition":
			// the node's raft links are cut in both directions (its HTTP
			// port stays reachable: a client can still talk to a leader
			// that has lost its followers)
			c.mu.Lock()
			c.cut[n.raft] = true
			c.mu.Unlock()
			k := nw.ResetWhere(func(remote string) bool { return strings.HasSuffix(remote, ":8089") })
			run.Fault("meta-node-partitioned")
			run.Logf("op%d raft links of meta node %d cut (%d connections reset)", i, n.id, k)
		case "slow":
			c.mu.Lock()
			c.slow[n.raft], c.slow[n.http] = time.Duration(o.Ms)*time.Millisecond, time.Duration(o.Ms)*time.Millisecond
			c.mu.Unlock()
			k := nw.ResetWhere(func(remote string) bool { return remote == n.raft })
			run.Fault("meta-node-slow")
			run.Logf("op%d everything sent to meta node %d takes %d ms from now on (%d connections reset)", i, n.id, o.Ms, k)
		case "flaky":
			c.mu.Lock()
			c.flaky[n.raft] = int64(o.Ms)
			c.mu.Unlock()
			k := nw.ResetWhere(func(remote string) bool { return remote == n.raft })
			run.Fault("meta-node-lossy-link")
			run.Logf("op%d raft connections to meta node %d are reset after %d bytes from now on (%d connections reset)", i, n.id, o.Ms, k)
		case "heal":
			c.mu.Lock()
			delete(c.isolated, n.http)
			delete(c.isolated, n.raft)
			delete(c.cut, n.raft)
			wasSlow := c.slow[n.raft] > 0
			delete(c.slow, n.raft)
			delete(c.slow, n.http)
			delete(c.flaky, n.raft)
			c.mu.Unlock()
			if wasSlow {
				nw.ResetWhere(func(remote string) bool { return remote == n.raft })
			}
		}
	}
	if run.Failed() {
		return
	}
	// faults stop
	c.mu.Lock()
	c.isolated = map[string]bool{}
	c.cut = map[string]bool{}
	wasSlow := c.slow
	c.slow = map[string]time.Duration{}
	c.flaky = map[string]int64{}
	c.mu.Unlock()
	if len(wasSlow) > 0 {
		// connections made while a node was slow stay slow: a healed network starts over
		nw.ResetWhere(func(remote string) bool { return wasSlow[remote] > 0 })
	}
	for _, n := range c.nodes {
		if !n.up {
			if err := c.start(n); err != nil {
				run.Fail("meta-node-does-not-restart", "", "meta node %d does not start again from its own state: %v", n.id, err)
				return
			}
			run.Probe("meta-node-restarted")
		}
	}
	// raft retries a follower it failed to reach many times in a row with a
	// back-off that grows to about 40 seconds, and an election may come on
	// top: two simulated minutes of a healthy network before progress is demanded
	time.Sleep(120 * time.Second)
	for _, pc := range outstanding {
		select {
		case <-pc.done:
		case <-time.After(5 * time.Minute):
			run.Fail("command-never-returns-after-heal", "", "%s was issued during a fault and has still not returned 5 simulated minutes after every node is up and connected again\n%s\n%s", pc.what, c.nodeStates(), metaStacks())
			return
		}
	}
	// bounded liveness: a new change commits
	err, ok := call("CreateDatabase(final)", func() error { _, err := client.CreateDatabase("final"); return err })
	if !ok {
		return
	}
	if err != nil {
		run.Fail("no-progress-after-heal", "", "with all three meta nodes up and connected for two simulated minutes a new command still fails: %v\n%s\n%s", err, c.nodeStates(), metaStacks())
		return
	}
	exists["final"] = "yes"
	time.Sleep(15 * time.Second)
	// A follower the leader failed to reach many times in a row (slow or lossy
	// links, a partition) is retried by raft with a back-off that grows to
	// about 40 seconds: the nodes get up to three more simulated minutes to
	// show the last change before they are compared.
	for waited := 0; waited < 180; waited += 5 {
		all := true
		for _, n := range c.nodes {
			b, code, err := c.get(fmt.Sprintf("http://%s/?index=0", n.http))
			var d meta.Data
			if err != nil || code != 200 || d.UnmarshalBinary(b) != nil || d.Database("final") == nil {
				all = false
				break
			}
		}
		if all {
			break
		}
		run.Probe("waited-for-a-lagging-follower")
		time.Sleep(5 * time.Second)
	}
	// every node's metadata
	var canon []string
	for _, n := range c.nodes {
		b, code, err := c.get(fmt.Sprintf("http://%s/?index=0", n.http))
		if err != nil || code != 200 {
			run.Fail("meta-node-unreadable-after-heal", "", "snapshot of meta node %d: %v (status %d)", n.id, err, code)
			return
		}
		var d meta.Data
		if err := d.UnmarshalBinary(b); err != nil {
			run.Fail("meta-node-unreadable-after-heal", "", "snapshot of meta node %d does not decode: %v", n.id, err)
			return
		}
		have := map[string]bool{}
		for _, db := range d.Databases {
			have[db.Name] = true
		}
		var names []string
		for name := range exists {
			names = append(names, name)
		}
		sort.Strings(names)
		for _, name := range names {
			if tainted[name] {
				continue
			}
			switch exists[name] {
			case "yes":
				if !have[name] {
					run.Fail("acknowledged-change-lost", "database", "meta node %d does not have database %s, whose creation was acknowledged to the client", n.id, name)
					return
				}
			case "no":
				if have[name] {
					run.Fail("acknowledged-change-lost", "drop", "meta node %d still has database %s, whose drop was acknowledged to the client", n.id, name)
					return
				}
			}
		}
		for key := range rps {
			parts := strings.SplitN(key, ".", 2)
			if exists[parts[0]] != "yes" || tainted[parts[0]] {
				continue
			}
			found := false
			for _, db := range d.Databases {
				if db.Name == parts[0] {
					for _, rp := range db.RetentionPolicies {
						if rp.Name == parts[1] {
							found = true
						}
					}
				}
			}
			if !found {
				run.Fail("acknowledged-change-lost", "retention-policy", "meta node %d does not have retention policy %s, whose creation was acknowledged to the client", n.id, key)
				return
			}
		}
		hu := map[string]bool{}
		for _, u := range d.Users {
			hu[u.Name] = true
		}
		for name, st := range users {
			if st == "yes" && !hu[name] {
				run.Fail("acknowledged-change-lost", "user", "meta node %d does not have user %s, whose creation was acknowledged to the client", n.id, name)
				return
			}
		}
		// term and index differ by nothing once converged; leave them out
		d.Term, d.Index = 0, 0
		canon = append(canon, metacmd.CanonicalFull(&d))
	}
	for i := 1; i < len(canon); i++ {
		if canon[i] != canon[0] {
			run.Fail("replicas-diverged", "cluster", "45 simulated seconds after the last fault meta node %d holds different metadata than node 0:\n%s", i, diff(canon[0], canon[i]))
			return
		}
	}
	run.Probe("cluster-converged")
	// Shrinking the cluster: followers are removed one at a time through the
	// /remove endpoint (what the control tool's remove-meta does), down to two
	// nodes or to one. Nothing that was acknowledged may be lost on the nodes
	// that stay, and they must still take a new change.
	remaining := append([]*mnode(nil), c.nodes...)
	for k := 0; k < p.Shrink && len(remaining) > 1; k++ {
		leader := ""
		for _, m := range remaining {
			b, code, err := c.get(fmt.Sprintf("http://%s/status", m.http))
			var st meta.MetaNodeStatus
			if err == nil && code == 200 && json.Unmarshal(b, &st) == nil && st.Leader != "" {
				leader = st.Leader
				break
			}
		}
		var victim, via *mnode
		for _, m := range remaining {
			if m.raft != leader && victim == nil {
				victim = m
			} else if via == nil {
				via = m
			}
		}
		if leader == "" || victim == nil || via == nil {
			run.Fail("no-progress-after-heal", "shrink", "no leader is reported by the healthy cluster before a meta node is removed\n%s", c.nodeStates())
			return
		}
		// (the address travels as a form in the body: the redirect of a follower
		// names the leader's /remove without the query, and a 307 re-sends the body)
		resp, err := c.hc.PostForm(fmt.Sprintf("http://%s/remove", via.http), url.Values{"httpAddr": {victim.http}})
		if err != nil {
			run.Fail("meta-node-removal-failed", "", "remove of meta node %d asked of meta node %d: %v\n%s", victim.id, via.id, err, c.nodeStates())
			return
		}
		b, _ := io.ReadAll(resp.Body)
		resp.Body.Close()
		if resp.StatusCode != 204 {
			run.Fail("meta-node-removal-failed", "", "remove of meta node %d asked of meta node %d in a healthy cluster: status %d %s\n%s", victim.id, via.id, resp.StatusCode, strings.TrimSpace(string(b)), c.nodeStates())
			return
		}
		run.Logf("meta node %d removed through meta node %d", victim.id, via.id)
		run.Probe("meta-node-removed")
		time.Sleep(5 * time.Second)
		c.stop(victim)
		var rest []*mnode
		var servers []string
		for _, m := range remaining {
			if m != victim {
				rest = append(rest, m)
				servers = append(servers, m.http)
			}
		}
		remaining = rest
		client.SetMetaServers(servers)
		time.Sleep(10 * time.Second)
		name := fmt.Sprintf("after-remove-%d", k)
		err, ok := call("CreateDatabase("+name+")", func() error { _, err := client.CreateDatabase(name); return err })
		if !ok {
			return
		}
		if err != nil {
			run.Fail("no-progress-after-heal", "shrink", "after meta node %d was removed from a healthy cluster a new command fails: %v\n%s", victim.id, err, c.nodeStates())
			return
		}
		exists[name] = "yes"
		time.Sleep(5 * time.Second)
		for _, n := range remaining {
			b, code, err := c.get(fmt.Sprintf("http://%s/?index=0", n.http))
			var d meta.Data
			if err != nil || code != 200 || d.UnmarshalBinary(b) != nil {
				run.Fail("meta-node-unreadable-after-heal", "shrink", "snapshot of meta node %d after the removal of node %d: %v (status %d)", n.id, victim.id, err, code)
				return
			}
			have := map[string]bool{}
			for _, db := range d.Databases {
				have[db.Name] = true
			}
			for name, st := range exists {
				if st == "yes" && !tainted[name] && !have[name] {
					run.Fail("acknowledged-change-lost", "database-after-node-removal", "after meta node %d was removed, meta node %d no longer has database %s, whose creation was acknowledged to the client (it serves index %d with %d databases)", victim.id, n.id, name, d.Index, len(d.Databases))
					return
				}
			}
			hu := map[string]bool{}
			for _, u := range d.Users {
				hu[u.Name] = true
			}
			for name, st := range users {
				if st == "yes" && !hu[name] {
					run.Fail("acknowledged-change-lost", "user-after-node-removal", "after meta node %d was removed, meta node %d no longer has user %s, whose creation was acknowledged to the client", victim.id, n.id, name)
					return
				}
			}
		}
		run.Probe("cluster-verified-after-node-removal")
	}
	run.NonTrivial = run.Faults["meta-node-stopped"]+run.Faults["meta-node-unreachable"]+run.Faults["meta-node-partitioned"]+run.Faults["meta-node-slow"]+run.Faults["meta-node-lossy-link"] > 0
	run.Digest = fmt.Sprintf("cluster/%d", len(p.Cluster))
}

// metaStacks returns the stacks of the goroutines that are inside the meta
// service or its client (who waits for whom when a command hangs).
func metaStacks() string {
	buf := make([]byte, 4<<20)
	buf = buf[:runtime.Stack(buf, true)]
	var keep []string
	for _, g := range strings.Split(string(buf), "\n\n") {
		if strings.Contains(g, "/repo/services/meta") || (os.Getenv("VERIF_RAFT_STACKS") != "" && strings.Contains(g, "hashicorp/raft")) {
			lines := strings.Split(g, "\n")
			if len(lines) > 24 {
				lines = lines[:24]
			}
			keep = append(keep, strings.Join(lines, "\n"))
		}
	}
	s := strings.Join(keep, "\n\n")
	if len(s) > 30000 && os.Getenv("VERIF_RAFT_STACKS") == "" {
		s = s[:30000]
	}
	return s
}

// nodeStates says what every meta node reports about itself: raft status and
// the index of the metadata it serves.
func (c *mcluster) nodeStates() string {
	var out []string
	for _, n := range c.nodes {
		st, code, err := c.get(fmt.Sprintf("http://%s/status", n.http))
		line := fmt.Sprintf("meta node %d (%s): up=%v status=%q (%d, %v)", n.id, n.http, n.up, strings.TrimSpace(string(st)), code, err)
		if b, code, err := c.get(fmt.Sprintf("http://%s/?index=0", n.http)); err == nil && code == 200 {
			var d meta.Data
			if d.UnmarshalBinary(b) == nil {
				line += fmt.Sprintf(" serves metadata index %d term %d", d.Index, d.Term)
			}
		}
		out = append(out, line)
	}
	return strings.Join(out, "\n")
}
