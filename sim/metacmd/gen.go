package metacmd

import (
	"fmt"
	"time"

	"pgregory.net/rapid"
)

var (
	dbs   = []string{"db0", "db1"}
	rps   = []string{"rp0", "rp1", "autogen"}
	users = []string{"u0", "u1"}
	durs  = []time.Duration{0, time.Hour, 24 * time.Hour, 7 * 24 * time.Hour, 30 * time.Minute, -time.Hour}
	t2000 = time.Date(2000, 1, 1, 0, 0, 0, 0, time.UTC).UnixNano()
	// offsets from 2000-01-01; the last two land on the Unix epoch itself and
	// an hour before it (group boundaries at time 0, pre-1970 timestamps)
	epochs = []int64{0, int64(time.Hour), int64(24 * time.Hour), -int64(time.Hour), int64(36 * time.Hour), int64(10 * 24 * time.Hour), -t2000, -t2000 - int64(time.Hour)}
)

// Bias is a per-run tilt of the command mix (swarm style): a run with Lists
// set spends a third of its commands on the list-valued members of one
// retention policy and database - subscriptions and continuous queries of
// db0.rp0 - so that lists of several entries get built and entries other than
// the last removed.
//
// A run with Owners set spends half of its commands on the owner lists of the
// shards of db0.rp0 (replication 2 over up to four data nodes, so that the
// round-robin assignment wraps and lists such as [3 1] arise): copies to nodes
// that are or are not owners yet, removals, and deletions of data nodes.
//
// A run with Groups set spends half of its commands on the shard groups of
// db0.rp0 alone: groups created at six hours of one day (and a few minutes
// around them), deleted (they linger, marked deleted, among the live ones),
// truncated, and the policy's shard-group duration altered between an hour,
// six hours and a day - so that a live group comes to span the range of
// deleted and of shorter live groups, and the list is no longer ordered by
// start time.
type Bias struct {
	Lists, Owners, Groups bool
	step                  *int // commands drawn under this tilt so far
}

// GenBias draws the tilt of a run.
func GenBias(t *rapid.T, l string) Bias {
	switch rapid.IntRange(0, 5).Draw(t, l+".tilt") {
	case 0:
		return Bias{Lists: true}
	case 1:
		return Bias{Owners: true}
	case 2:
		return Bias{Groups: true, step: new(int)}
	}
	return Bias{}
}

// GenCmdBiased is GenCmd under a run's tilt.
func GenCmdBiased(t *rapid.T, l string, b Bias) Cmd {
	if b.Lists {
		switch k := rapid.IntRange(0, 19).Draw(t, l+".lk"); {
		case k == 0:
			return CmdCreateDatabase("db0", nil)
		case k == 1:
			return CmdCreateRP("db0", "rp0", 0, time.Hour, 1, true)
		case k < 4:
			return CmdCreateSubscription("s"+fmt.Sprint(rapid.IntRange(0, 3).Draw(t, l+".sn")), "db0", "rp0", "ALL", []string{"udp://h:9"})
		case k == 4:
			return CmdDropSubscription("s"+fmt.Sprint(rapid.IntRange(0, 3).Draw(t, l+".sn")), "db0", "rp0")
		case k == 5:
			n := rapid.IntRange(0, 3).Draw(t, l+".cn")
			return CmdCreateCQ("db0", "cq"+fmt.Sprint(n), fmt.Sprintf("CREATE CONTINUOUS QUERY cq%d ON db0 BEGIN SELECT mean(v) INTO m2 FROM m GROUP BY time(1h) END", n))
		case k == 6:
			return CmdDropCQ("db0", "cq"+fmt.Sprint(rapid.IntRange(0, 3).Draw(t, l+".cn")))
		case k == 7:
			// the grants of one user on several databases (a map-valued member)
			return CmdCreateDatabase("db1", nil)
		case k == 8:
			return CmdCreateUser("u0", "hash0", false)
		case k < 13:
			return CmdSetPrivilege("u0", rapid.SampledFrom([]string{"db0", "db1"}).Draw(t, l+".pdb"), rapid.IntRange(1, 3).Draw(t, l+".priv"))
		}
	}
	if b.Groups && b.step != nil && *b.step < 3 {
		// the run starts with what the groups need: a data node, the database, the policy
		*b.step++
		switch *b.step {
		case 1:
			return CmdCreateDataNode("d0:8086", "d0:8088")
		case 2:
			return CmdCreateDatabase("db0", nil)
		default:
			return CmdCreateRP("db0", "rp0", 0, time.Hour, 1, true)
		}
	}
	if b.Groups {
		hour := func() int64 {
			return t2000 + int64(rapid.IntRange(0, 5).Draw(t, l+".ghour"))*int64(time.Hour) + int64(rapid.SampledFrom([]int{0, 0, 10, 30, 59}).Draw(t, l+".gmin"))*int64(time.Minute)
		}
		switch k := rapid.IntRange(0, 23).Draw(t, l+".gk"); {
		case k == 0:
			n := rapid.IntRange(0, 1).Draw(t, l+".dn")
			return CmdCreateDataNode(fmt.Sprintf("d%d:8086", n), fmt.Sprintf("d%d:8088", n))
		case k == 1:
			return CmdCreateDatabase("db0", nil)
		case k == 2:
			return CmdCreateRP("db0", "rp0", 0, time.Hour, 1, true)
		case k < 7:
			return CmdCreateShardGroup("db0", "rp0", hour())
		case k < 9:
			return CmdDeleteShardGroup("db0", "rp0", uint64(rapid.IntRange(1, 6).Draw(t, l+".sg")))
		case k < 11:
			sg := rapid.SampledFrom([]time.Duration{time.Hour, 6 * time.Hour, 24 * time.Hour}).Draw(t, l+".gsg")
			return CmdUpdateRP("db0", "rp0", nil, nil, nil, &sg, true)
		case k == 11:
			return CmdTruncate(hour())
		}
	}
	if b.Owners {
		switch k := rapid.IntRange(0, 19).Draw(t, l+".ok"); {
		case k < 2:
			n := rapid.IntRange(0, 3).Draw(t, l+".dn")
			return CmdCreateDataNode(fmt.Sprintf("d%d:8086", n), fmt.Sprintf("d%d:8088", n))
		case k == 2:
			return CmdCreateDatabase("db0", nil)
		case k == 3:
			return CmdCreateRP("db0", "rp0", 0, time.Hour, 2, true)
		case k < 6:
			return CmdCreateShardGroup("db0", "rp0", t2000+int64(rapid.IntRange(0, 3).Draw(t, l+".hour"))*int64(time.Hour))
		case k < 9:
			return CmdCopyShardOwner(uint64(rapid.IntRange(1, 8).Draw(t, l+".shard")), uint64(rapid.IntRange(1, 5).Draw(t, l+".node")))
		case k < 12:
			return CmdRemoveShardOwner(uint64(rapid.IntRange(1, 8).Draw(t, l+".shard")), uint64(rapid.IntRange(1, 5).Draw(t, l+".node")))
		case k == 12:
			return CmdDeleteDataNode(uint64(rapid.IntRange(1, 5).Draw(t, l+".node")))
		case k == 13:
			// a group marked deleted lingers until it is pruned; its shards keep their owners
			return CmdDeleteShardGroup("db0", "rp0", uint64(rapid.IntRange(1, 4).Draw(t, l+".sg")))
		}
	}
	return GenCmd(t, l)
}

// GenCmd draws one metadata command with arbitrary (valid, repeated,
// conflicting, invalid) arguments from small universes.
func GenCmd(t *rapid.T, l string) Cmd {
	db := rapid.SampledFrom(dbs).Draw(t, l+".db")
	rp := rapid.SampledFrom(rps).Draw(t, l+".rp")
	id := uint64(rapid.IntRange(0, 12).Draw(t, l+".id"))
	ts := t2000 + rapid.SampledFrom(epochs).Draw(t, l+".epoch") + rapid.Int64Range(-2, 2).Draw(t, l+".ns")*rapid.SampledFrom([]int64{1, int64(time.Minute)}).Draw(t, l+".unit")
	switch k := rapid.IntRange(0, 41).Draw(t, l+".kind"); {
	case k < 4:
		return CmdCreateDataNode(fmt.Sprintf("d%d:8086", id%6), fmt.Sprintf("d%d:8088", id%6))
	case k < 6:
		return CmdDeleteDataNode(id)
	case k < 7:
		return CmdUpdateDataNode(id, fmt.Sprintf("x%d:8086", id), fmt.Sprintf("x%d:8088", id))
	case k < 8:
		return CmdCreateMetaNode(fmt.Sprintf("m%d:8091", id%3), fmt.Sprintf("m%d:8089", id%3), uint64(rapid.IntRange(0, 3).Draw(t, l+".rand")))
	case k < 9:
		return CmdDeleteMetaNode(id)
	case k < 12:
		var rpb []byte
		if rapid.Bool().Draw(t, l+".withrp") {
			rpb = RP(rp, rapid.SampledFrom(durs).Draw(t, l+".dur"), rapid.SampledFrom(durs).Draw(t, l+".sg"), rapid.IntRange(0, 4).Draw(t, l+".rf"))
		}
		return CmdCreateDatabase(db, rpb)
	case k < 13:
		return CmdDropDatabase(db)
	case k < 16:
		return CmdCreateRP(db, rp, rapid.SampledFrom(durs).Draw(t, l+".dur"), rapid.SampledFrom(durs).Draw(t, l+".sg"), rapid.IntRange(0, 4).Draw(t, l+".rf"), rapid.Bool().Draw(t, l+".def"))
	case k < 17:
		return CmdDropRP(db, rp)
	case k < 20:
		var nn *string
		var d, sg *time.Duration
		var rf *int
		if rapid.IntRange(0, 3).Draw(t, l+".rn") == 0 {
			s := rapid.SampledFrom(rps).Draw(t, l+".newname")
			nn = &s
		}
		if rapid.Bool().Draw(t, l+".hd") {
			x := rapid.SampledFrom(durs).Draw(t, l+".dur")
			d = &x
		}
		if rapid.Bool().Draw(t, l+".hs") {
			x := rapid.SampledFrom(durs).Draw(t, l+".sg")
			sg = &x
		}
		if rapid.Bool().Draw(t, l+".hr") {
			x := rapid.IntRange(0, 4).Draw(t, l+".rf")
			rf = &x
		}
		return CmdUpdateRP(db, rp, nn, d, rf, sg, rapid.Bool().Draw(t, l+".def"))
	case k < 27:
		return CmdCreateShardGroup(db, rp, ts)
	case k < 29:
		return CmdDeleteShardGroup(db, rp, id)
	case k < 31:
		return CmdTruncate(ts)
	case k < 32:
		return CmdPrune()
	case k < 33:
		return CmdDropShard(id)
	case k < 34:
		return CmdCopyShardOwner(id, uint64(rapid.IntRange(0, 8).Draw(t, l+".node")))
	case k < 35:
		return CmdRemoveShardOwner(id, uint64(rapid.IntRange(0, 8).Draw(t, l+".node")))
	case k < 36:
		u := rapid.SampledFrom(users).Draw(t, l+".user")
		switch rapid.IntRange(0, 4).Draw(t, l+".uk") {
		case 0:
			return CmdCreateUser(u, "hash"+fmt.Sprint(id), rapid.Bool().Draw(t, l+".admin"))
		case 1:
			return CmdDropUser(u)
		case 2:
			return CmdUpdateUser(u, "hash"+fmt.Sprint(id))
		case 3:
			return CmdSetPrivilege(u, db, rapid.IntRange(0, 4).Draw(t, l+".priv"))
		default:
			return CmdSetAdmin(u, rapid.Bool().Draw(t, l+".admin"))
		}
	case k < 37:
		if rapid.Bool().Draw(t, l+".cq") {
			return CmdCreateCQ(db, "cq"+fmt.Sprint(id%2), "CREATE CONTINUOUS QUERY cq ON db0 BEGIN SELECT mean(v) INTO m2 FROM m GROUP BY time(1h) END")
		}
		return CmdDropCQ(db, "cq"+fmt.Sprint(id%2))
	case k < 40:
		// three names: a drop of the first of several shifts the rest
		if rapid.IntRange(0, 2).Draw(t, l+".sub") > 0 {
			return CmdCreateSubscription("s"+fmt.Sprint(id%3), db, rp, rapid.SampledFrom([]string{"ALL", "ANY", "bad"}).Draw(t, l+".mode"), []string{"udp://h:9"})
		}
		return CmdDropSubscription("s"+fmt.Sprint(id%3), db, rp)
	case k < 41:
		return CmdSetMetaNode(fmt.Sprintf("m%d:8091", id%3), fmt.Sprintf("m%d:8089", id%3), 7)
	default:
		if rapid.Bool().Draw(t, l+".legacy") {
			return CmdDeleteNode(id)
		}
		return CmdUpdateNode(id, "h")
	}
}
