// Package metacmd builds meta-store commands in protobuf wire format by hand
// (the repo's generated types live in an internal package that another module
// cannot import), renders a canonical form of meta.Data and checks the
// metadata invariants of property C06. Being written from meta.proto rather
// than with the repo's marshalling code also makes it an independent encoder.
package metacmd

import (
	"fmt"
	"sort"
	"strings"
	"time"

	"github.com/influxdata/influxdb/services/meta"
)

// ---- minimal protobuf writer ----

type Buf struct{ B []byte }

func (b *Buf) varint(v uint64) {
	for v >= 0x80 {
		b.B = append(b.B, byte(v)|0x80)
		v >>= 7
	}
	b.B = append(b.B, byte(v))
}
func (b *Buf) key(field int, wt int) { b.varint(uint64(field)<<3 | uint64(wt)) }

// Uint writes a varint field.
func (b *Buf) Uint(field int, v uint64) *Buf { b.key(field, 0); b.varint(v); return b }

// Int writes an int64 varint field (two's complement).
func (b *Buf) Int(field int, v int64) *Buf { return b.Uint(field, uint64(v)) }

// Bool writes a bool field.
func (b *Buf) Bool(field int, v bool) *Buf {
	if v {
		return b.Uint(field, 1)
	}
	return b.Uint(field, 0)
}

// Bytes writes a length-delimited field.
func (b *Buf) Bytes(field int, v []byte) *Buf {
	b.key(field, 2)
	b.varint(uint64(len(v)))
	b.B = append(b.B, v...)
	return b
}

// Str writes a string field.
func (b *Buf) Str(field int, v string) *Buf { return b.Bytes(field, []byte(v)) }

// Command type numbers (meta.proto, enum Command.Type).
const (
	CreateNode = 1 + iota
	DeleteNode
	CreateDatabase
	DropDatabase
	CreateRetentionPolicy
	DropRetentionPolicy
	SetDefaultRetentionPolicy
	UpdateRetentionPolicy
	CreateShardGroup
	DeleteShardGroup
	CreateContinuousQuery
	DropContinuousQuery
	CreateUser
	DropUser
	UpdateUser
	SetPrivilege
	SetData
	SetAdminPrivilege
	UpdateNode
	_unused20
	CreateSubscription
	DropSubscription
	RemovePeer
	CreateMetaNode
	CreateDataNode
	UpdateDataNode
	DeleteMetaNode
	DeleteDataNode
	SetMetaNode
	DropShard
	TruncateShardGroups
	PruneShardGroups
	CopyShardOwner
	RemoveShardOwner
)

// TypeNames for traces.
var TypeNames = map[int]string{
	CreateNode: "CreateNode", DeleteNode: "DeleteNode", CreateDatabase: "CreateDatabase", DropDatabase: "DropDatabase",
	CreateRetentionPolicy: "CreateRetentionPolicy", DropRetentionPolicy: "DropRetentionPolicy", SetDefaultRetentionPolicy: "SetDefaultRetentionPolicy",
	UpdateRetentionPolicy: "UpdateRetentionPolicy", CreateShardGroup: "CreateShardGroup", DeleteShardGroup: "DeleteShardGroup",
	CreateContinuousQuery: "CreateContinuousQuery", DropContinuousQuery: "DropContinuousQuery", CreateUser: "CreateUser", DropUser: "DropUser",
	UpdateUser: "UpdateUser", SetPrivilege: "SetPrivilege", SetData: "SetData", SetAdminPrivilege: "SetAdminPrivilege", UpdateNode: "UpdateNode",
	CreateSubscription: "CreateSubscription", DropSubscription: "DropSubscription", RemovePeer: "RemovePeer", CreateMetaNode: "CreateMetaNode",
	CreateDataNode: "CreateDataNode", UpdateDataNode: "UpdateDataNode", DeleteMetaNode: "DeleteMetaNode", DeleteDataNode: "DeleteDataNode",
	SetMetaNode: "SetMetaNode", DropShard: "DropShard", TruncateShardGroups: "TruncateShardGroups", PruneShardGroups: "PruneShardGroups",
	CopyShardOwner: "CopyShardOwner", RemoveShardOwner: "RemoveShardOwner",
}

// ExtField is the extension field number of a command type.
func ExtField(typ int) int { return 100 + typ }

// Command wraps a payload into a Command message: type + extension.
func Command(typ int, payload []byte) []byte {
	var b Buf
	b.Uint(1, uint64(typ))
	b.Bytes(ExtField(typ), payload)
	return b.B
}

// CommandRaw builds a Command with an arbitrary extension field (or none when
// ext == 0).
func CommandRaw(typ int, ext int, payload []byte) []byte {
	var b Buf
	b.Uint(1, uint64(typ))
	if ext != 0 {
		b.Bytes(ext, payload)
	}
	return b.B
}

// RP encodes a RetentionPolicyInfo message.
func RP(name string, dur, sgdur time.Duration, replicaN int) []byte {
	var b Buf
	b.Str(1, name).Int(2, int64(dur)).Int(3, int64(sgdur)).Uint(4, uint64(replicaN))
	return b.B
}

// Cmd is a described command.
type Cmd struct {
	Type int
	Desc string
	Data []byte
}

func mk(typ int, desc string, payload *Buf) Cmd {
	return Cmd{Type: typ, Desc: TypeNames[typ] + "(" + desc + ")", Data: Command(typ, payload.B)}
}

func CmdCreateDatabase(name string, rp []byte) Cmd {
	b := new(Buf).Str(1, name)
	d := name
	if rp != nil {
		b.Bytes(2, rp)
		d += ",with-rp"
	}
	return mk(CreateDatabase, d, b)
}
func CmdDropDatabase(name string) Cmd { return mk(DropDatabase, name, new(Buf).Str(1, name)) }
func CmdCreateRP(db, name string, dur, sg time.Duration, rf int, def bool) Cmd {
	return mk(CreateRetentionPolicy, fmt.Sprintf("%s.%s dur=%v sg=%v rf=%d default=%v", db, name, dur, sg, rf, def),
		new(Buf).Str(1, db).Bytes(2, RP(name, dur, sg, rf)).Bool(3, def))
}
func CmdDropRP(db, name string) Cmd {
	return mk(DropRetentionPolicy, db+"."+name, new(Buf).Str(1, db).Str(2, name))
}
func CmdUpdateRP(db, name string, newName *string, dur *time.Duration, rf *int, sg *time.Duration, def bool) Cmd {
	b := new(Buf).Str(1, db).Str(2, name)
	d := db + "." + name
	if newName != nil {
		b.Str(3, *newName)
		d += " rename=" + *newName
	}
	if dur != nil {
		b.Int(4, int64(*dur))
		d += fmt.Sprintf(" dur=%v", *dur)
	}
	if rf != nil {
		b.Uint(5, uint64(*rf))
		d += fmt.Sprintf(" rf=%d", *rf)
	}
	if sg != nil {
		b.Int(6, int64(*sg))
		d += fmt.Sprintf(" sg=%v", *sg)
	}
	b.Bool(7, def)
	return mk(UpdateRetentionPolicy, d, b)
}
func CmdCreateShardGroup(db, rp string, ts int64) Cmd {
	return mk(CreateShardGroup, fmt.Sprintf("%s.%s @%d", db, rp, ts), new(Buf).Str(1, db).Str(2, rp).Int(3, ts))
}
func CmdDeleteShardGroup(db, rp string, id uint64) Cmd {
	return mk(DeleteShardGroup, fmt.Sprintf("%s.%s #%d", db, rp, id), new(Buf).Str(1, db).Str(2, rp).Uint(3, id))
}
func CmdCreateCQ(db, name, q string) Cmd {
	return mk(CreateContinuousQuery, db+"."+name, new(Buf).Str(1, db).Str(2, name).Str(3, q))
}
func CmdDropCQ(db, name string) Cmd {
	return mk(DropContinuousQuery, db+"."+name, new(Buf).Str(1, db).Str(2, name))
}
func CmdCreateUser(name, hash string, admin bool) Cmd {
	return mk(CreateUser, fmt.Sprintf("%s admin=%v", name, admin), new(Buf).Str(1, name).Str(2, hash).Bool(3, admin))
}
func CmdDropUser(name string) Cmd { return mk(DropUser, name, new(Buf).Str(1, name)) }
func CmdUpdateUser(name, hash string) Cmd {
	return mk(UpdateUser, name, new(Buf).Str(1, name).Str(2, hash))
}
func CmdSetPrivilege(user, db string, p int) Cmd {
	return mk(SetPrivilege, fmt.Sprintf("%s on %s = %d", user, db, p), new(Buf).Str(1, user).Str(2, db).Int(3, int64(p)))
}
func CmdSetAdmin(user string, admin bool) Cmd {
	return mk(SetAdminPrivilege, fmt.Sprintf("%s admin=%v", user, admin), new(Buf).Str(1, user).Bool(2, admin))
}
func CmdCreateSubscription(name, db, rp, mode string, dests []string) Cmd {
	b := new(Buf).Str(1, name).Str(2, db).Str(3, rp).Str(4, mode)
	for _, d := range dests {
		b.Str(5, d)
	}
	return mk(CreateSubscription, fmt.Sprintf("%s on %s.%s %s %v", name, db, rp, mode, dests), b)
}
func CmdDropSubscription(name, db, rp string) Cmd {
	return mk(DropSubscription, fmt.Sprintf("%s on %s.%s", name, db, rp), new(Buf).Str(1, name).Str(2, db).Str(3, rp))
}
func CmdCreateMetaNode(http, tcp string, rnd uint64) Cmd {
	return mk(CreateMetaNode, http, new(Buf).Str(1, http).Str(2, tcp).Uint(3, rnd))
}
func CmdSetMetaNode(http, tcp string, rnd uint64) Cmd {
	return mk(SetMetaNode, http, new(Buf).Str(1, http).Str(2, tcp).Uint(3, rnd))
}
func CmdDeleteMetaNode(id uint64) Cmd {
	return mk(DeleteMetaNode, fmt.Sprint(id), new(Buf).Uint(1, id))
}
func CmdCreateDataNode(http, tcp string) Cmd {
	return mk(CreateDataNode, http, new(Buf).Str(1, http).Str(2, tcp))
}
func CmdUpdateDataNode(id uint64, http, tcp string) Cmd {
	return mk(UpdateDataNode, fmt.Sprintf("%d -> %s", id, http), new(Buf).Uint(1, id).Str(2, http).Str(3, tcp))
}
func CmdDeleteDataNode(id uint64) Cmd {
	return mk(DeleteDataNode, fmt.Sprint(id), new(Buf).Uint(1, id))
}
func CmdDropShard(id uint64) Cmd { return mk(DropShard, fmt.Sprint(id), new(Buf).Uint(1, id)) }
func CmdTruncate(ts int64) Cmd {
	return mk(TruncateShardGroups, fmt.Sprintf("@%d", ts), new(Buf).Int(1, ts))
}

// EpochTruncation reports whether the metadata holds a shard group truncated
// at exactly the Unix epoch (a truncation command at that time, or at an
// earlier time on a group that starts there). The metadata encoding writes a
// truncation time as nanoseconds since the epoch with 0 for "not truncated":
// such a truncation is lost by every snapshot (a recorded finding; the site
// names it).
func EpochTruncation(d *meta.Data) bool {
	for _, db := range d.Databases {
		for _, rp := range db.RetentionPolicies {
			for _, g := range rp.ShardGroups {
				if !g.TruncatedAt.IsZero() && g.TruncatedAt.UnixNano() == 0 {
					return true
				}
			}
		}
	}
	return false
}

func CmdPrune() Cmd { return mk(PruneShardGroups, "", new(Buf)) }
func CmdCopyShardOwner(id, node uint64) Cmd {
	return mk(CopyShardOwner, fmt.Sprintf("shard %d -> node %d", id, node), new(Buf).Uint(1, id).Uint(2, node))
}
func CmdRemoveShardOwner(id, node uint64) Cmd {
	return mk(RemoveShardOwner, fmt.Sprintf("shard %d x node %d", id, node), new(Buf).Uint(1, id).Uint(2, node))
}
func CmdDeleteNode(id uint64) Cmd { // legacy no-op
	return mk(DeleteNode, fmt.Sprint(id), new(Buf).Uint(1, id).Bool(2, false))
}
func CmdUpdateNode(id uint64, host string) Cmd { // legacy no-op
	return mk(UpdateNode, fmt.Sprint(id), new(Buf).Uint(1, id).Str(2, host))
}

// ---- canonical form ----

// Canonical renders everything the property lets an observer compare between
// replicas: nodes, databases, policies, live shard groups with ranges and
// owners, users, continuous queries, subscriptions and id counters. Deleted
// groups and wall-clock stamps (DeletedAt) are excluded.
func Canonical(d *meta.Data, withIndex bool) string {
	var sb strings.Builder
	if withIndex {
		fmt.Fprintf(&sb, "term=%d index=%d ", d.Term, d.Index)
	}
	fmt.Fprintf(&sb, "cluster=%d maxnode=%d maxsg=%d maxshard=%d\n", d.ClusterID, d.MaxNodeID, d.MaxShardGroupID, d.MaxShardID)
	for _, n := range d.MetaNodes {
		fmt.Fprintf(&sb, "meta %d %s %s\n", n.ID, n.Addr, n.TCPAddr)
	}
	for _, n := range d.DataNodes {
		fmt.Fprintf(&sb, "data %d %s %s\n", n.ID, n.Addr, n.TCPAddr)
	}
	for _, db := range d.Databases {
		fmt.Fprintf(&sb, "db %s default=%s\n", db.Name, db.DefaultRetentionPolicy)
		for _, rp := range db.RetentionPolicies {
			fmt.Fprintf(&sb, " rp %s dur=%d sg=%d rf=%d\n", rp.Name, rp.Duration, rp.ShardGroupDuration, rp.ReplicaN)
			for _, g := range rp.ShardGroups {
				if g.Deleted() {
					continue
				}
				fmt.Fprintf(&sb, "  sg %d [%d,%d) trunc=%d", g.ID, g.StartTime.UnixNano(), g.EndTime.UnixNano(), nanoOrZero(g.TruncatedAt))
				for _, sh := range g.Shards {
					fmt.Fprintf(&sb, " shard %d owners", sh.ID)
					for _, o := range sh.Owners {
						fmt.Fprintf(&sb, " %d", o.NodeID)
					}
					sb.WriteString(";")
				}
				sb.WriteString("\n")
			}
			for _, s := range rp.Subscriptions {
				fmt.Fprintf(&sb, "  sub %s %s %v\n", s.Name, s.Mode, s.Destinations)
			}
		}
		for _, cq := range db.ContinuousQueries {
			fmt.Fprintf(&sb, " cq %s %q\n", cq.Name, cq.Query)
		}
	}
	for _, u := range d.Users {
		var ps []string
		for db, p := range u.Privileges {
			ps = append(ps, fmt.Sprintf("%s=%d", db, p))
		}
		sort.Strings(ps)
		fmt.Fprintf(&sb, "user %s admin=%v hash=%s %v\n", u.Name, u.Admin, u.Hash, ps)
	}
	return sb.String()
}

// CanonicalFull additionally renders deleted shard groups with their stamps:
// what a snapshot must reproduce exactly.
func CanonicalFull(d *meta.Data) string {
	var sb strings.Builder
	sb.WriteString(Canonical(d, true))
	for _, db := range d.Databases {
		for _, rp := range db.RetentionPolicies {
			for _, g := range rp.ShardGroups {
				if !g.Deleted() {
					continue
				}
				fmt.Fprintf(&sb, "deleted %s.%s sg %d [%d,%d) trunc=%d deleted=%d", db.Name, rp.Name, g.ID, g.StartTime.UnixNano(), g.EndTime.UnixNano(), nanoOrZero(g.TruncatedAt), nanoOrZero(g.DeletedAt))
				for _, sh := range g.Shards {
					fmt.Fprintf(&sb, " shard %d owners %v;", sh.ID, sh.Owners)
				}
				sb.WriteString("\n")
			}
		}
	}
	return sb.String()
}

func nanoOrZero(t time.Time) int64 {
	if t.IsZero() {
		return 0
	}
	return t.UnixNano()
}

// Ids is the set of shard and shard-group ids present in a Data (including
// deleted groups).
type Ids struct {
	Groups map[uint64]bool
	Shards map[uint64]bool
}

func CollectIds(d *meta.Data) Ids {
	ids := Ids{Groups: map[uint64]bool{}, Shards: map[uint64]bool{}}
	for _, db := range d.Databases {
		for _, rp := range db.RetentionPolicies {
			for _, g := range rp.ShardGroups {
				ids.Groups[g.ID] = true
				for _, sh := range g.Shards {
					ids.Shards[sh.ID] = true
				}
			}
		}
	}
	return ids
}

// CheckInvariants checks the per-state invariants of C06 on cur; prev is the
// state before the command (nil for the first), seen the ids ever observed.
func CheckInvariants(prev, cur *meta.Data, seen *Ids) (class, detail string) {
	nodes := map[uint64]bool{}
	for _, n := range cur.DataNodes {
		if nodes[n.ID] {
			return "duplicate-node-id", fmt.Sprintf("data node id %d appears twice", n.ID)
		}
		nodes[n.ID] = true
	}
	gids := map[uint64]bool{}
	sids := map[uint64]bool{}
	prevIds := Ids{Groups: map[uint64]bool{}, Shards: map[uint64]bool{}}
	if prev != nil {
		prevIds = CollectIds(prev)
	}
	for _, db := range cur.Databases {
		for _, rp := range db.RetentionPolicies {
			type rng struct {
				id     uint64
				lo, hi int64
			}
			var live []rng
			for _, g := range rp.ShardGroups {
				if gids[g.ID] {
					return "duplicate-shard-group-id", fmt.Sprintf("shard group id %d is used twice", g.ID)
				}
				gids[g.ID] = true
				if !prevIds.Groups[g.ID] {
					// a new group
					if seen.Groups[g.ID] {
						return "shard-group-id-reused", fmt.Sprintf("new shard group got id %d which was used before", g.ID)
					}
					if g.ID > cur.MaxShardGroupID {
						return "id-counter-behind", fmt.Sprintf("group id %d exceeds MaxShardGroupID %d", g.ID, cur.MaxShardGroupID)
					}
					want := rp.ReplicaN
					if want == 0 {
						want = 1
					}
					if want > len(cur.DataNodes) {
						want = len(cur.DataNodes)
					}
					per := map[uint64]int{}
					for _, sh := range g.Shards {
						own := map[uint64]bool{}
						for _, o := range sh.Owners {
							if own[o.NodeID] {
								return "duplicate-owner", fmt.Sprintf("new group %d: shard %d lists node %d twice", g.ID, sh.ID, o.NodeID)
							}
							own[o.NodeID] = true
							if !nodes[o.NodeID] {
								return "owner-not-a-data-node", fmt.Sprintf("new group %d: shard %d owned by node %d which is not a data node", g.ID, sh.ID, o.NodeID)
							}
							per[o.NodeID]++
						}
						if len(own) != want {
							return "wrong-owner-count", fmt.Sprintf("new group %d of %s.%s (replication %d, %d data nodes): shard %d has %d owners, want %d", g.ID, db.Name, rp.Name, rp.ReplicaN, len(cur.DataNodes), sh.ID, len(own), want)
						}
					}
					min, max := 1<<30, 0
					for id := range nodes {
						c := per[id]
						if c < min {
							min = c
						}
						if c > max {
							max = c
						}
					}
					if len(nodes) > 0 && max-min > 1 {
						return "owners-not-spread-evenly", fmt.Sprintf("new group %d: shards per data node range from %d to %d (%v)", g.ID, min, max, per)
					}
				}
				for _, sh := range g.Shards {
					if sids[sh.ID] {
						return "duplicate-shard-id", fmt.Sprintf("shard id %d is used twice", sh.ID)
					}
					sids[sh.ID] = true
					if !prevIds.Shards[sh.ID] && seen.Shards[sh.ID] {
						return "shard-id-reused", fmt.Sprintf("new shard got id %d which was used before", sh.ID)
					}
					if sh.ID > cur.MaxShardID {
						return "id-counter-behind", fmt.Sprintf("shard id %d exceeds MaxShardID %d", sh.ID, cur.MaxShardID)
					}
					for _, o := range sh.Owners {
						if !nodes[o.NodeID] {
							kind := "live"
							if g.Deleted() {
								kind = "deleted, not yet pruned"
							}
							return "shard-owned-by-removed-node", fmt.Sprintf("shard %d of %s group %d is owned by node %d which is not a data node", sh.ID, kind, g.ID, o.NodeID)
						}
					}
				}
				if g.Deleted() {
					continue
				}
				hi := g.EndTime.UnixNano()
				if g.Truncated() {
					hi = g.TruncatedAt.UnixNano()
				}
				live = append(live, rng{g.ID, g.StartTime.UnixNano(), hi})
			}
			for i := range live {
				for j := i + 1; j < len(live); j++ {
					a, b := live[i], live[j]
					if a.lo < b.hi && b.lo < a.hi {
						return "live-shard-groups-overlap", fmt.Sprintf("%s.%s: live groups %d [%d,%d) and %d [%d,%d) overlap", db.Name, rp.Name, a.id, a.lo, a.hi, b.id, b.lo, b.hi)
					}
				}
			}
		}
	}
	if prev != nil {
		if cur.MaxShardID < prev.MaxShardID || cur.MaxShardGroupID < prev.MaxShardGroupID || cur.MaxNodeID < prev.MaxNodeID {
			return "id-counter-went-backwards", fmt.Sprintf("counters node/sg/shard %d/%d/%d -> %d/%d/%d", prev.MaxNodeID, prev.MaxShardGroupID, prev.MaxShardID, cur.MaxNodeID, cur.MaxShardGroupID, cur.MaxShardID)
		}
	}
	for id := range gids {
		seen.Groups[id] = true
	}
	for id := range sids {
		seen.Shards[id] = true
	}
	return "", ""
}
