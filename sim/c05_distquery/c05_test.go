// C05 — distributed query reads every shard exactly once or fails.
//
// An in-process cluster of 2-4 real data nodes (real tsdb.Store, real
// coordinator.Service on the simulated network, real MetaExecutor /
// ClusterShardMapper / query.Executor) holds replicated shards whose ownership
// layout comes from the real meta.Data (CreateShardGroup, CopyShardOwner,
// RemoveShardOwner). Statements that fan out are executed from a drawn
// coordinating node while other nodes are down, refuse, are slow, stall,
// answer with an error, or drop the connection at request time or part-way
// through the stream. Oracle: either the statement fails, or its result equals
// the same statement over the union of the data on a fault-free single-node
// reference; when every shard keeps a fault-free owner and the faults are of
// the request-time kind the statement must succeed (fail-over).
package c05

import (
	"context"
	"encoding/json"
	"fmt"
	"math/rand"
	"path/filepath"
	"sort"
	"strings"
	"sync/atomic"
	"testing"
	"time"

	"github.com/gogo/protobuf/types"
	"github.com/influxdata/influxdb/models"
	"github.com/influxdata/influxdb/query"
	"github.com/influxdata/influxdb/services/meta"
	"github.com/influxdata/influxdb/services/storage"
	"github.com/influxdata/influxdb/storage/reads/datatypes"
	"github.com/influxdata/influxdb/tsdb/cursors"
	"github.com/influxdata/influxql"
	"pgregory.net/rapid"

	"verifsim/clustersim"
	"verifsim/core"
	"verifsim/model"
	"verifsim/simnet"
	"verifsim/storesim"
)

type point struct {
	M    string
	A, B string
	F    float64
	I    int64
	T    int64 // offset from t0 in ns
}

type fault struct {
	Kind string // none, down, refuse, slow, stall, reset-request, reset-stream, close-stream, error-reply
	K    int64
}

type ownerEdit struct {
	Kind  string // copy, remove
	Shard int
	Node  int
}

type plan struct {
	Nodes  int
	RF     int
	Groups int
	Points []point
	Edits  []ownerEdit
	Coord  int
	Faults []fault // per node (index = node-1); the coordinator's entry is ignored
	Stmts  []string
	Index  string
	Rand   int64 // seed of the process-wide math/rand source the mapper draws owners from
}

var t0 = time.Date(2000, 1, 1, 0, 0, 0, 0, time.UTC)

func genPlan(t *rapid.T) interface{} {
	p := &plan{}
	p.Nodes = rapid.IntRange(2, 4).Draw(t, "nodes")
	p.RF = rapid.IntRange(1, p.Nodes).Draw(t, "rf")
	p.Groups = rapid.IntRange(1, 3).Draw(t, "groups")
	p.Index = rapid.SampledFrom([]string{"inmem", "tsi1"}).Draw(t, "index")
	n := rapid.IntRange(1, 40).Draw(t, "npoints")
	for i := 0; i < n; i++ {
		l := fmt.Sprintf("p%d", i)
		p.Points = append(p.Points, point{
			M: rapid.SampledFrom([]string{"m0", "m1"}).Draw(t, l+".m"),
			A: rapid.SampledFrom([]string{"", "x", "y", "z"}).Draw(t, l+".a"),
			B: rapid.SampledFrom([]string{"", "p"}).Draw(t, l+".b"),
			F: float64(rapid.IntRange(-64, 64).Draw(t, l+".f")) / 8,
			I: int64(rapid.IntRange(-20, 20).Draw(t, l+".i")),
			T: int64(rapid.IntRange(0, p.Groups-1).Draw(t, l+".g"))*int64(time.Hour) + int64(rapid.IntRange(0, 3599).Draw(t, l+".s"))*int64(time.Second),
		})
	}
	// Within a measurement a timestamp belongs to one series: which of two
	// points of different series with equal timestamps a merged selector or a
	// raw select sees first is unspecified.
	type mt struct {
		m string
		t int64
	}
	seen := map[mt][2]string{}
	for i := range p.Points {
		q := &p.Points[i]
		if o, ok := seen[mt{q.M, q.T}]; ok {
			q.A, q.B = o[0], o[1]
		} else {
			seen[mt{q.M, q.T}] = [2]string{q.A, q.B}
		}
	}
	ne := rapid.IntRange(0, 4).Draw(t, "nedits")
	for i := 0; i < ne; i++ {
		l := fmt.Sprintf("e%d", i)
		p.Edits = append(p.Edits, ownerEdit{Kind: rapid.SampledFrom([]string{"copy", "remove"}).Draw(t, l+".k"), Shard: rapid.IntRange(0, 11).Draw(t, l+".shard"), Node: rapid.IntRange(1, p.Nodes).Draw(t, l+".node")})
	}
	p.Coord = rapid.IntRange(1, p.Nodes).Draw(t, "coord")
	for i := 0; i < p.Nodes; i++ {
		l := fmt.Sprintf("f%d", i)
		f := fault{Kind: rapid.SampledFrom([]string{"none", "none", "none", "down", "refuse", "slow", "late", "stall", "reset-request", "reset-stream", "close-stream", "error-reply", "shards-disabled"}).Draw(t, l+".kind")}
		f.K = int64(rapid.IntRange(0, 400).Draw(t, l+".k"))
		p.Faults = append(p.Faults, f)
	}
	tmpl := []string{
		"SELECT f FROM m0",
		"SELECT f, i FROM m0, m1",
		"SELECT count(f), sum(i) FROM m0",
		"SELECT sum(i) FROM m0 GROUP BY a",
		"SELECT count(i) FROM m0, m1 WHERE a = 'x' OR b = 'p'",
		"SELECT count(f) FROM m1 WHERE time >= '2000-01-01T00:30:00Z' AND time < '2000-01-01T01:30:00Z'",
		"SELECT max(i), min(i) FROM m0 WHERE time >= '2000-01-01T00:00:00Z' AND time < '2000-01-01T03:00:00Z' GROUP BY time(30m)",
		"SELECT mean(f) FROM m0 WHERE time >= '2000-01-01T00:00:00Z' AND time < '2000-01-01T03:00:00Z' GROUP BY time(1h), a fill(none)",
		"SELECT first(f), last(i) FROM m0 GROUP BY b",
		"SELECT u FROM m0",
		"SELECT sum(u), count(s) FROM m0, m1",
		"SELECT s, bo FROM m1",
		"SELECT last(s), first(bo) FROM m0 GROUP BY a",
		// wildcards: the fields and tags are looked up on the owners of every shard
		"SELECT * FROM m0",
		"SELECT * FROM m1 GROUP BY *",
		"SELECT count(*) FROM m0",
		"SELECT f FROM m1 GROUP BY *",
		"SELECT *::field FROM m0, m1",
		"@storage.ReadFilter",
		"@storage.ReadFilter",
		"SHOW MEASUREMENTS",
		"SHOW TAG KEYS",
		"SHOW TAG VALUES WITH KEY = a",
		"SHOW FIELD KEYS",
		"SHOW SERIES",
		"EXPLAIN SELECT f FROM m0",
	}
	p.Rand = int64(rapid.IntRange(0, 1<<20).Draw(t, "rand"))
	ns := rapid.IntRange(1, 5).Draw(t, "nstmts")
	for i := 0; i < ns; i++ {
		p.Stmts = append(p.Stmts, rapid.SampledFrom(tmpl).Draw(t, fmt.Sprintf("s%d", i)))
	}
	if rapid.IntRange(0, 7).Draw(t, "ragged") == 0 {
		// A ragged layout as copies and node removals leave it, built so that
		// fail-over takes several rounds: five nodes, the coordinator (node 1)
		// owns nothing, two shards are on nodes {2,3}, three on {2,4,5}; node 2
		// is down, node 4 answers with an error, nodes 3 and 5 are healthy.
		// The shards first tried on node 2 are spread over fallback owners
		// that have no node in common, one of which fails again.
		p.Nodes, p.RF, p.Groups, p.Index, p.Coord = 5, 1, 1, "tsi1", 1
		p.Edits = nil
		for sh := 0; sh < 5; sh++ {
			keep := []int{2, 3} // two shards on nodes 2 and 3
			if sh >= 2 {
				keep = []int{2, 4, 5} // three on nodes 2, 4 and 5: no fallback owner in common
			}
			for _, n := range keep {
				p.Edits = append(p.Edits, ownerEdit{Kind: "copy", Shard: sh, Node: n})
			}
			for n := 1; n <= 5; n++ {
				drop := true
				for _, k := range keep {
					drop = drop && k != n
				}
				if drop {
					p.Edits = append(p.Edits, ownerEdit{Kind: "remove", Shard: sh, Node: n})
				}
			}
		}
		p.Faults = []fault{{Kind: "none"}, {Kind: "down"}, {Kind: "none"}, {Kind: "error-reply"}, {Kind: "none"}}
		for i := range p.Points {
			p.Points[i].T %= int64(time.Hour) // one shard group
		}
		p.Stmts = append([]string{"EXPLAIN SELECT f FROM m0", "SELECT count(f), sum(i) FROM m0", "EXPLAIN SELECT f FROM m0"}, p.Stmts...)
		if len(p.Stmts) > 6 {
			p.Stmts = p.Stmts[:6]
		}
	}
	return p
}

func mkPoint(q point) (models.Point, model.Point) {
	tags := map[string]string{}
	if q.A != "" {
		tags["a"] = q.A
	}
	if q.B != "" {
		tags["b"] = q.B
	}
	ts := t0.Add(time.Duration(q.T))
	mp := models.MustNewPoint(q.M, models.NewTags(tags), models.Fields{"f": q.F, "i": q.I, "u": uint64(q.I + 20), "s": fmt.Sprintf("s%d", q.I), "bo": q.I%2 == 0}, ts)
	return mp, model.Point{}
}

func buildData(nodes, rf, groups int) (*meta.Data, error) {
	d := &meta.Data{}
	for i := 1; i <= nodes; i++ {
		d.Index++
		if err := d.CreateDataNode(fmt.Sprintf("node%d:8086", i), clustersim.Addr(uint64(i))); err != nil {
			return nil, err
		}
	}
	if err := d.CreateDatabase(storesim.DB); err != nil {
		return nil, err
	}
	if err := d.CreateRetentionPolicy(storesim.DB, &meta.RetentionPolicyInfo{Name: storesim.RP, ReplicaN: rf, Duration: 0, ShardGroupDuration: time.Hour}, true); err != nil {
		return nil, err
	}
	for g := 0; g < groups; g++ {
		d.Index++
		if err := d.CreateShardGroup(storesim.DB, storesim.RP, t0.Add(time.Duration(g)*time.Hour)); err != nil {
			return nil, err
		}
	}
	return d, nil
}

func allShards(d *meta.Data) []meta.ShardInfo {
	rp, _ := d.RetentionPolicy(storesim.DB, storesim.RP)
	var out []meta.ShardInfo
	for _, g := range rp.ShardGroups {
		out = append(out, g.Shards...)
	}
	return out
}

// shardsHolding counts the shards that hold at least one point of the
// measurement (on some owner).
func shardsHolding(d *meta.Data, pts []point, measurement string) int {
	rp, _ := d.RetentionPolicy(storesim.DB, storesim.RP)
	owned := map[uint64]bool{}
	for _, s := range allShards(d) {
		if len(s.Owners) > 0 {
			owned[s.ID] = true
		}
	}
	seen := map[uint64]bool{}
	for _, q := range pts {
		mp, _ := mkPoint(q)
		if string(mp.Name()) != measurement {
			continue
		}
		if g := rp.ShardGroupByTimestamp(mp.Time()); g != nil {
			if sh := g.ShardFor(mp); owned[sh.ID] {
				seen[sh.ID] = true
			}
		}
	}
	return len(seen)
}

// load writes every point into the store of every owner of its shard.
func load(run *core.Run, c *clustersim.Cluster, pts []point) bool {
	rp, _ := c.Data.RetentionPolicy(storesim.DB, storesim.RP)
	for _, q := range pts {
		mp, _ := mkPoint(q)
		g := rp.ShardGroupByTimestamp(mp.Time())
		if g == nil {
			run.Fail("harness-error", "", "no shard group for %v", mp.Time())
			return false
		}
		sh := g.ShardFor(mp)
		// current owners (after edits)
		var owners []meta.ShardOwner
		for _, s := range allShards(c.Data) {
			if s.ID == sh.ID {
				owners = s.Owners
			}
		}
		for _, o := range owners {
			n := c.Node(o.NodeID)
			if n == nil {
				continue
			}
			if err := n.Sim.Store.CreateShard(storesim.DB, storesim.RP, sh.ID, true); err != nil {
				run.Fail("harness-error", "", "CreateShard: %v", err)
				return false
			}
			if err := n.Sim.Store.WriteToShard(sh.ID, []models.Point{mp}); err != nil {
				run.Fail("harness-error", "", "WriteToShard: %v", err)
				return false
			}
		}
	}
	return true
}

// execStorage runs a storage read (what the read service / flux use) over the
// whole time range through the node's cluster store and renders every series
// with its points; cursors of one series coming from different shards or
// nodes are concatenated in time order.
func execStorage(n *clustersim.Node) (string, error) {
	src, err := types.MarshalAny(&storage.ReadSource{Database: storesim.DB, RetentionPolicy: storesim.RP})
	if err != nil {
		return "", err
	}
	rs, err := n.CS.ReadFilter(context.Background(), &datatypes.ReadFilterRequest{ReadSource: src, Range: datatypes.TimestampRange{Start: t0.UnixNano(), End: t0.Add(24 * time.Hour).UnixNano()}})
	if err != nil {
		return "", err
	}
	if rs == nil {
		return "", nil
	}
	defer rs.Close()
	type tv struct {
		t int64
		v string
	}
	rows := map[string][]tv{}
	for rs.Next() {
		key := rs.Tags().String()
		cur := rs.Cursor()
		if cur == nil {
			continue
		}
		switch c := cur.(type) {
		case cursors.FloatArrayCursor:
			for a := c.Next(); a.Len() > 0; a = c.Next() {
				for i := range a.Timestamps {
					rows[key] = append(rows[key], tv{a.Timestamps[i], fmt.Sprint(a.Values[i])})
				}
			}
		case cursors.IntegerArrayCursor:
			for a := c.Next(); a.Len() > 0; a = c.Next() {
				for i := range a.Timestamps {
					rows[key] = append(rows[key], tv{a.Timestamps[i], fmt.Sprint(a.Values[i])})
				}
			}
		case cursors.UnsignedArrayCursor:
			for a := c.Next(); a.Len() > 0; a = c.Next() {
				for i := range a.Timestamps {
					rows[key] = append(rows[key], tv{a.Timestamps[i], fmt.Sprint(a.Values[i])})
				}
			}
		case cursors.StringArrayCursor:
			for a := c.Next(); a.Len() > 0; a = c.Next() {
				for i := range a.Timestamps {
					rows[key] = append(rows[key], tv{a.Timestamps[i], fmt.Sprintf("%q", a.Values[i])})
				}
			}
		case cursors.BooleanArrayCursor:
			for a := c.Next(); a.Len() > 0; a = c.Next() {
				for i := range a.Timestamps {
					rows[key] = append(rows[key], tv{a.Timestamps[i], fmt.Sprint(a.Values[i])})
				}
			}
		}
		if err := cur.Err(); err != nil {
			cur.Close()
			return "", err
		}
		cur.Close()
	}
	if err := rs.Err(); err != nil {
		return "", err
	}
	keys := make([]string, 0, len(rows))
	for k := range rows {
		keys = append(keys, k)
	}
	sort.Strings(keys)
	var out []string
	for _, k := range keys {
		r := rows[k]
		sort.Slice(r, func(i, j int) bool { return r[i].t < r[j].t })
		var s []string
		for _, x := range r {
			s = append(s, fmt.Sprintf("%d=%s", x.t, x.v))
		}
		out = append(out, k+": "+strings.Join(s, " "))
	}
	return strings.Join(out, "\n"), nil
}

func execStmt(n *clustersim.Node, stmt string) (string, error) {
	if stmt == "@storage.ReadFilter" {
		return execStorage(n)
	}
	q, err := influxql.ParseQuery(stmt)
	if err != nil {
		return "", fmt.Errorf("harness: parse %q: %v", stmt, err)
	}
	closing := make(chan struct{})
	defer close(closing)
	ch := n.QE.ExecuteQuery(q, query.ExecutionOptions{Database: storesim.DB, ReadOnly: true}, closing)
	var parts []string
	for r := range ch {
		if r.Err != nil {
			return "", r.Err
		}
		// EXPLAIN output names sizes of files and is layout specific: keep only success
		// (sizes, files, blocks); the number of shards the estimate was summed
		// over is not: every shard of the query once
		if strings.HasPrefix(stmt, "EXPLAIN") {
			shards := "0"
			for _, row := range r.Series {
				for _, v := range row.Values {
					if len(v) > 0 {
						if t, ok := v[0].(string); ok && strings.HasPrefix(strings.TrimSpace(t), "NUMBER OF SHARDS:") {
							shards = strings.TrimSpace(strings.TrimPrefix(strings.TrimSpace(t), "NUMBER OF SHARDS:"))
						}
					}
				}
			}
			parts = append(parts, "explain-ok shards="+shards)
			continue
		}
		for _, row := range r.Series {
			// Rows of one result series with equal timestamps (points of
			// different underlying series merged by a statement without
			// GROUP BY *) have no specified order: compare them as a multiset.
			for lo := 0; lo < len(row.Values); {
				hi := lo + 1
				for hi < len(row.Values) && fmt.Sprint(row.Values[hi][0]) == fmt.Sprint(row.Values[lo][0]) {
					hi++
				}
				grp := row.Values[lo:hi]
				sort.Slice(grp, func(i, j int) bool { return fmt.Sprint(grp[i]) < fmt.Sprint(grp[j]) })
				lo = hi
			}
			b, _ := json.Marshal(row)
			parts = append(parts, string(b))
		}
	}
	return strings.Join(parts, "\n"), nil
}

func exec(run *core.Run, pl interface{}) {
	p := pl.(*plan)
	data, err := buildData(p.Nodes, p.RF, p.Groups)
	if err != nil {
		run.Fail("harness-error", "", "metadata: %v", err)
		return
	}
	// ownership edits through the real Data methods
	shards := allShards(data)
	for _, e := range p.Edits {
		sh := shards[e.Shard%len(shards)]
		next := data.Clone()
		next.Index++
		if e.Kind == "copy" {
			next.CopyShardOwner(sh.ID, uint64(e.Node))
		} else {
			// never remove the last owner: the shard would disappear
			var cur []meta.ShardOwner
			for _, s := range allShards(next) {
				if s.ID == sh.ID {
					cur = s.Owners
				}
			}
			if len(cur) <= 1 {
				continue
			}
			next.RemoveShardOwner(sh.ID, uint64(e.Node))
		}
		data = next
		run.Probe("ownership-edited")
	}
	c, err := clustersim.New(filepath.Join(run.Scratch, "cluster"), data, p.Index)
	if err != nil {
		run.Fail("harness-error", "", "cluster: %v", err)
		return
	}
	defer c.Close()
	if !load(run, c, p.Points) {
		return
	}
	// reference: one node holding everything
	refData, err := buildData(1, 1, p.Groups)
	if err != nil {
		run.Fail("harness-error", "", "ref metadata: %v", err)
		return
	}
	// the reference lives on its own network namespace: distinct addresses are not needed as it never dials
	ref, err := newRef(filepath.Join(run.Scratch, "ref"), refData, p.Index)
	if err != nil {
		run.Fail("harness-error", "", "reference: %v", err)
		return
	}
	defer ref.Close()
	if !load(run, ref, p.Points) {
		return
	}

	// faults
	clean := map[uint64]bool{}
	requestTimeOnly := true
	kinds := map[string]fault{}
	kindsByID := map[uint64]fault{}
	for i, f := range p.Faults {
		id := uint64(i + 1)
		if int(id) == p.Coord || f.Kind == "none" {
			clean[id] = true
			continue
		}
		if f.Kind == "slow" {
			clean[id] = true
		}
		kinds[clustersim.Addr(id)] = f
		kindsByID[id] = f
		switch f.Kind {
		case "down":
			c.Node(id).Down()
			run.Fault("node-down")
		case "shards-disabled":
			// real condition: the node is up but its shards cannot be read
			// (disabled, as during a restore or a failed open)
			for _, s := range allShards(data) {
				for _, o := range s.Owners {
					if o.NodeID == id {
						c.Node(id).Sim.Store.SetShardEnabled(s.ID, false)
					}
				}
			}
			run.Fault("node-shards-disabled")
		case "error-reply":
			c.Node(id).Store.Fail = true
			run.Fault("node-error-reply")
		case "stall", "late", "reset-stream", "close-stream":
			requestTimeOnly = false
		}
	}
	c.Net.PolicyFor = func(addr string, n int) simnet.Policy {
		pol := simnet.NoFault
		f, ok := kinds[addr]
		if !ok {
			return pol
		}
		switch f.Kind {
		case "refuse":
			pol.Refuse = true
		case "slow":
			pol.Latency = time.Duration(50+f.K) * time.Millisecond
			pol.Fragment = int(1 + f.K%7)
		case "stall":
			pol.Stall = true
		case "late":
			// answers, but only after the asking node has given up (request
			// and reply each take more than half the 5 s the simulated
			// deployment allows); the connection stays open and the late
			// reply does arrive on it
			pol.Latency = 2500*time.Millisecond + time.Duration(1+f.K%3)*time.Second
		case "reset-request":
			pol.ResetC2S = f.K % 40
		case "reset-stream":
			pol.ResetS2C = f.K
		case "close-stream":
			pol.CloseS2C = f.K
		}
		return pol
	}
	// does every shard keep an owner that can serve it?
	servable := true
	for _, s := range allShards(data) {
		ok := false
		for _, o := range s.Owners {
			if clean[o.NodeID] {
				ok = true
			}
		}
		if !ok {
			servable = false
		}
	}
	coord := c.Node(uint64(p.Coord))
	var closesFired int64
	// the inter-node protocol is strict request/response without request
	// ids: a reply that was sent before the current request arrived can only
	// be the late answer to an earlier, abandoned request
	c.Net.OnStaleReply = func(desc string) {
		run.Fail("stale-reply-taken-for-answer", "", "%s", desc)
	}
	c.Net.OnFault = func(kind string) {
		run.Fault("net-" + kind)
		if kind == "close-mid-stream" {
			atomic.AddInt64(&closesFired, 1)
		}
	}
	rand.Seed(p.Rand) // the mapper picks among remote owners with math/rand
	for i, stmt := range p.Stmts {
		core.Progress()
		closesBefore := atomic.LoadInt64(&closesFired)
		for _, n := range c.Nodes {
			n.Store.TakeServed()
		}
		if f := strings.Fields(stmt); len(f) > 1 {
			run.Op(f[0] + f[1])
		} else {
			run.Op(stmt)
		}
		want, rerr := execStmt(ref.Nodes[0], stmt)
		if rerr != nil {
			run.Fail("harness-error", "", "reference failed for %q: %v", stmt, rerr)
			return
		}
		explainAny := false
		if strings.HasPrefix(stmt, "EXPLAIN") {
			// The reference node has its own (coarser) shards: the cluster's
			// estimate is held to the cluster's metadata - every shard that
			// holds the measurement, once. Only with the disk-based index: the
			// in-memory index is shared by the shards of a database on a node,
			// so that "holds the measurement" depends on which owner is asked.
			if p.Index == "tsi1" {
				want = fmt.Sprintf("explain-ok shards=%d", shardsHolding(data, p.Points, "m0"))
				run.Probe("explain-shard-count-checked")
			} else {
				explainAny = true
			}
		}
		type res struct {
			out string
			err error
		}
		done := make(chan res, 1)
		go func() {
			out, err := execStmt(coord, stmt)
			done <- res{out, err}
		}()
		var r res
		select {
		case r = <-done:
		case <-time.After(2 * time.Minute):
			run.Fail("query-hangs", "", "stmt %d %q on node %d did not return within 2 simulated minutes (faults: %s)", i, stmt, p.Coord, describeFaults(p))
			return
		}
		run.Logf("stmt %d %q on node%d -> err=%v", i, stmt, p.Coord, r.err)
		if r.err != nil {
			run.Probe("query-failed")
			if servable && requestTimeOnly {
				run.Fail("no-failover", "", "stmt %q on node %d failed (%v) although every shard has an owner that is up and healthy and the faulty nodes only refuse or answer with an error (faults: %s; owners: %s)", stmt, p.Coord, r.err, describeFaults(p), describeOwners(data))
				return
			}
			continue
		}
		if explainAny && strings.HasPrefix(r.out, "explain-ok") {
			r.out = want
		}
		run.Probe("query-succeeded")
		if len(kinds) > 0 {
			run.Probe("query-succeeded-under-faults")
		}
		askedFaulty := false
		for id, f := range kindsByID {
			if (f.Kind == "error-reply" || f.Kind == "shards-disabled") && len(c.Node(id).Store.TakeServed()) > 0 {
				askedFaulty = true
			}
		}
		disabledSomewhere := false
		for _, f := range kindsByID {
			if f.Kind == "shards-disabled" {
				disabledSomewhere = true
			}
		}
		if r.out != want && disabledSomewhere && strings.HasPrefix(stmt, "@storage") {
			// Same root cause on the storage read path: a node whose shards
			// are disabled builds its series cursor over the shards it can
			// open (tsdb.Store.Shards / newIndexSeriesCursor) and answers
			// with what is left, without an error.
			run.Fail("silently-incomplete-or-wrong-result", "storage-read-owner-with-disabled-shards-answers-with-nothing", "storage ReadFilter on node %d returned success but differs from the same read over the union of the data; a node whose shards are disabled took part (faults: %s; owners: %s)\n got: %s\nwant: %s", p.Coord, describeFaults(p), describeOwners(data), clip(r.out), clip(want))
			continue
		}
		// a cost estimate summed over more shards than hold the measurement has
		// counted a shard twice: none of the recorded defects (which leave
		// shards out) explains that
		if strings.HasPrefix(stmt, "EXPLAIN") && !explainAny && r.out != want {
			var g, w int
			if _, e1 := fmt.Sscanf(r.out, "explain-ok shards=%d", &g); e1 == nil {
				if _, e2 := fmt.Sscanf(want, "explain-ok shards=%d", &w); e2 == nil && g > w {
					run.Fail("shard-counted-twice", "cost-estimate", "stmt %q on node %d: the estimate is summed over %d shards, %d shards hold the measurement (faults: %s; owners: %s)", stmt, p.Coord, g, w, describeFaults(p), describeOwners(data))
					return
				}
			}
		}
		// an EXPLAIN of a statement plans it the same way and shares its defects
		core := strings.TrimPrefix(stmt, "EXPLAIN ")
		if r.out != want && askedFaulty && strings.HasPrefix(core, "SELECT") {
			// An owner that is up but cannot read its shards was asked. The
			// type lookup of a field has no error path (tsdb.Shards.MapType
			// drops the shard's error and says "unknown"), so the coordinator
			// takes the field as absent instead of asking another owner.
			run.Fail("silently-incomplete-or-wrong-result", "faulty-owner-answers-field-type-lookup-with-unknown", "stmt %q on node %d returned success but differs from the same statement over the union of the data; an owner that cannot read its shards was asked (faults: %s; owners: %s)\n got: %s\nwant: %s", stmt, p.Coord, describeFaults(p), describeOwners(data), clip(r.out), clip(want))
			continue
		}
		if r.out != want && askedFaulty && strings.HasPrefix(stmt, "SHOW") {
			// Same root cause for the lookups served through the shard mapper
			// (SHOW SERIES, SHOW FIELD KEYS): tsdb.Shards.createSeriesIterator /
			// FieldKeysByMeasurement / MeasurementsByRegex skip shards they
			// cannot open and have no error path.
			run.Fail("silently-incomplete-or-wrong-result", "faulty-owner-answers-metadata-lookup-with-nothing", "stmt %q on node %d returned success but differs from the same statement over the union of the data; an owner that cannot read its shards was asked (faults: %s; owners: %s)\n got: %s\nwant: %s", stmt, p.Coord, describeFaults(p), describeOwners(data), clip(r.out), clip(want))
			continue
		}
		if r.out != want && atomic.LoadInt64(&closesFired) > closesBefore {
			// a peer closed its end of a point stream cleanly part-way: the
			// stream format has no end marker, a clean close between two frames
			// reads as the end of the data
			run.Fail("silently-incomplete-or-wrong-result", "peer-closed-stream-cleanly-mid-way", "stmt %q on node %d returned success but differs from the same statement over the union of the data after a peer closed its stream cleanly part-way (faults: %s; owners: %s)\n got: %s\nwant: %s", stmt, p.Coord, describeFaults(p), describeOwners(data), clip(r.out), clip(want))
			continue
		}
		if r.out != want && !servable {
			// some shard has no owner left that could serve it: the statement had to fail
			run.Fail("success-although-shard-unservable", unservableSite(core, strings.TrimPrefix(r.out, "explain-ok shards=0"), strings.TrimPrefix(want, "explain-ok ")), "stmt %q on node %d returned success although a shard has no reachable, healthy owner, and the result misses its data (faults: %s; owners: %s)\n got: %s\nwant: %s", stmt, p.Coord, describeFaults(p), describeOwners(data), clip(r.out), clip(want))
			continue
		}
		if r.out != want {
			run.Fail("silently-incomplete-or-wrong-result", strings.Fields(stmt)[0], "stmt %q on node %d returned success but differs from the same statement over the union of the data (faults: %s; owners: %s)\n got: %s\nwant: %s", stmt, p.Coord, describeFaults(p), describeOwners(data), clip(r.out), clip(want))
			return
		}
	}
	run.NonTrivial = len(kinds) > 0
	run.Digest = fmt.Sprintf("n%d rf%d g%d", p.Nodes, p.RF, p.Groups)
}

// unservableSite names the shape of a success that misses the data of a
// shard nobody could serve. The recorded defects have narrow shapes: a
// metadata lookup that asks every node and drops errors (by statement kind),
// and a SELECT for which a whole measurement is absent because the type of
// its fields resolved to "unknown". A measurement that is present with only
// part of its rows or with a different aggregate is something else.
func unservableSite(stmt, got, want string) string {
	w := strings.Fields(stmt)
	if strings.HasPrefix(stmt, "@storage") {
		return "storage-read"
	}
	if w[0] == "SHOW" {
		kind := "SHOW " + w[1]
		if len(w) > 2 && (w[1] == "TAG" || w[1] == "FIELD") {
			kind += " " + w[2]
		}
		// SHOW SERIES and SHOW FIELD KEYS run through the shard mapper like a
		// SELECT on a system measurement: the recorded shape is the wholly
		// empty answer (type of the system column unresolved)
		if kind == "SHOW SERIES" || kind == "SHOW FIELD KEYS" {
			if got == "" {
				return kind + "-empty"
			}
			return kind + "-partial"
		}
		return kind
	}
	byName := func(s string) map[string]string {
		m := map[string]string{}
		for _, line := range strings.Split(s, "\n") {
			var row struct{ Name string }
			if json.Unmarshal([]byte(line), &row) == nil {
				m[row.Name] += line + "\n"
			}
		}
		return m
	}
	g, wn := byName(got), byName(want)
	for name, rows := range wn {
		if g[name] != rows && g[name] != "" {
			return w[0] + "-measurement-partly-present"
		}
	}
	for name := range g {
		if _, ok := wn[name]; !ok {
			return w[0] + "-measurement-partly-present"
		}
	}
	return w[0] + "-measurement-absent"
}

func clip(s string) string {
	if len(s) > 700 {
		return s[:700] + "…"
	}
	return s
}

func describeFaults(p *plan) string {
	var s []string
	for i, f := range p.Faults {
		if i+1 == p.Coord {
			s = append(s, fmt.Sprintf("node%d=coordinator", i+1))
		} else {
			s = append(s, fmt.Sprintf("node%d=%s(%d)", i+1, f.Kind, f.K))
		}
	}
	return strings.Join(s, " ")
}

func describeOwners(d *meta.Data) string {
	var s []string
	for _, sh := range allShards(d) {
		var o []string
		for _, ow := range sh.Owners {
			o = append(o, fmt.Sprint(ow.NodeID))
		}
		sort.Strings(o)
		s = append(s, fmt.Sprintf("shard%d:[%s]", sh.ID, strings.Join(o, ",")))
	}
	return strings.Join(s, " ")
}

// newRef builds the single-node reference on addresses that do not clash.
func newRef(root string, d *meta.Data, index string) (*clustersim.Cluster, error) {
	return clustersim.NewOn(root, d, index, "ref-")
}

func describe(pl interface{}) interface{} {
	p := pl.(*plan)
	return map[string]interface{}{"nodes": p.Nodes, "rf": p.RF, "groups": p.Groups, "index": p.Index, "points": len(p.Points), "edits": fmt.Sprint(p.Edits), "coordinator": p.Coord, "faults": describeFaults(p), "statements": p.Stmts}
}

func warmup() { storesim.Warmup() }

func TestC05(t *testing.T) {
	core.Main(t, core.Harness{
		Property:       "C05",
		Gen:            genPlan,
		Exec:           exec,
		Bubble:         true,
		Warmup:         warmup,
		Describe:       describe,
		Tier:           "B",
		RequiredProbes: []string{"query-succeeded-under-faults", "query-failed", "ownership-edited"},
		Real:           []string{"coordinator.Service (handlers, RPC codecs, iterator encoder)", "MetaExecutor, client pools", "ClusterShardMapper / remoteShardGroup retry and shuffle", "ClusterTSDBStore metadata fan-out", "query.Executor + coordinator.StatementExecutor", "tsdb.Store per node", "meta.Client read paths over real meta.Data"},
		Stub:           []string{"network (simnet)", "the write path (points are placed directly into every owner's store)", "meta service (metadata built with real Data methods and installed into each node's client)", "storage-read RPCs (ReadFilter/ReadGroup) are not issued"},
		Assumptions: []string{
			"tier B: goroutine interleaving inside the nodes is the Go scheduler's; the oracle only asserts what must hold under every interleaving (fail, or equal the reference)",
			"failures of the coordinating node's own store are not injected",
		},
		Rule: "a run = cluster of 2-4 real data nodes, replication 1-n, 1-3 shard groups, 0-4 owner copies/removals, 1-40 points placed on every owner, a drawn coordinator, one fault kind per other node (down, refuse, slow+fragmented, late = answers after the asker's timeout, stall, reset at request, reset/close mid-stream, error reply) and 1-5 statements (raw and aggregate selects, grouped, time-bounded, wildcards, SHOW metadata lookups, EXPLAIN); non-trivial = at least one node faulty",
	})
}
