package c17

// Store mode: retention enforcement against a real storage node. One real
// tsdb.Store (inmem or tsi1 index) holds 2-4 shards of one database, one per
// consecutive one-hour shard group of the metadata, with drawn writes (the
// same series in several shards), cache snapshots, compactions and restarts.
// The real retention.Service ticks on the simulated clock while the driver
// lets hours pass, an operator deletes groups, and metadata / DeleteShard
// calls fail for a while. Safety: a shard whose group is neither deleted nor
// expired is never removed and keeps reading exactly what was acknowledged
// into it - also for series it shares with a removed shard, whose ids the
// removal takes out of the database-wide series file - and stays listed by
// the index. Liveness: within three passes after the last fault every shard of
// a deleted or expired group is gone from the store and from disk, and does
// not come back with a restart.

import (
	"errors"
	"fmt"
	"os"
	"path/filepath"
	"sort"
	"sync"
	"time"

	"github.com/influxdata/influxdb/services/meta"
	"github.com/influxdata/influxdb/services/retention"
	"github.com/influxdata/influxdb/toml"
	"pgregory.net/rapid"

	"verifsim/core"
	"verifsim/model"
	"verifsim/storesim"
)

type sOp struct {
	Kind  string // write, snapshot, compact, reopen, sleep, opdelete, failmeta, failstore, read, disable, enable
	Shard int
	Batch []model.Point
	Dur   time.Duration
	N     int
}

type storePlan struct {
	Index   string
	NShards int
	RPDur   time.Duration
	Ops     []sOp
}

func genStore(t *rapid.T) *storePlan {
	p := &storePlan{}
	p.Index = rapid.SampledFrom([]string{"inmem", "tsi1"}).Draw(t, "st.index")
	p.NShards = rapid.IntRange(2, 4).Draw(t, "st.nshards")
	p.RPDur = rapid.SampledFrom([]time.Duration{0, time.Hour, 3 * time.Hour, 24 * time.Hour}).Draw(t, "st.rpdur")
	n := rapid.IntRange(3, 18).Draw(t, "st.nops")
	for i := 0; i < n; i++ {
		l := fmt.Sprintf("st.op%d", i)
		o := sOp{Shard: rapid.IntRange(0, p.NShards-1).Draw(t, l+".shard")}
		switch k := rapid.IntRange(0, 22).Draw(t, l+".kind"); {
		case k >= 20:
			// a shard is taken offline for a while (as the snapshotter does
			// around an online restore) and enabled again later
			o.Kind = rapid.SampledFrom([]string{"disable", "enable", "offline", "offline"}).Draw(t, l+".dk")
			if o.Kind == "offline" {
				// offline across enforcement passes, then back: mostly one of
				// the younger shards, while older ones expire
				if rapid.IntRange(0, 2).Draw(t, l+".last") > 0 {
					o.Shard = p.NShards - 1
				}
				o.Dur = time.Duration(rapid.IntRange(31, 300).Draw(t, l+".min")) * time.Minute
			}
		case k < 7:
			o.Kind = "write"
			o.Batch = storesim.GenBatch(t, 5, l)
		case k < 9:
			o.Kind = "snapshot"
		case k < 10:
			o.Kind = "compact"
		case k < 11:
			o.Kind = "reopen"
		case k < 16:
			o.Kind = "sleep"
			o.Dur = time.Duration(rapid.IntRange(1, 300).Draw(t, l+".min")) * time.Minute
		case k < 17:
			o.Kind = "opdelete"
		case k < 18:
			o.Kind = "failmeta"
			o.N = rapid.IntRange(1, 3).Draw(t, l+".n")

		case k < 19:
			o.Kind = "failstore"
			o.N = rapid.IntRange(1, 3).Draw(t, l+".n")
		default:
			o.Kind = "read"
		}
		p.Ops = append(p.Ops, o)
	}
	return p
}

// storeWorld is the store-mode state on top of the metadata world.
type storeWorld struct {
	*world
	smu       sync.Mutex // the store and its models: driver steps and the service's DeleteShard exclude each other
	sim       *storesim.Sim
	root      string
	opts      storesim.Opts
	ids       []uint64 // shard id per plan index
	groups    []uint64 // shard group id per plan index
	models    []*model.Shard
	gone      []bool // removed by the service
	disabled  []bool // taken offline by the plan (not readable until enabled again)
	goneKeys  map[string]bool
	failStore int
}

// storeRef is the TSDBStore the retention service sees: the real store behind
// the safety oracle and the injected errors.
type storeRef struct{ sw *storeWorld }

func (r storeRef) ShardIDs() []uint64 {
	r.sw.smu.Lock()
	defer r.sw.smu.Unlock()
	ids := r.sw.sim.Store.ShardIDs()
	sort.Slice(ids, func(i, j int) bool { return ids[i] < ids[j] })
	return ids
}

func (r storeRef) DeleteShard(id uint64) error {
	sw := r.sw
	w := sw.world
	w.mu.Lock()
	now := time.Now()
	var grp *meta.ShardGroupInfo
	var rpi *meta.RetentionPolicyInfo
	for i := range w.data.Databases {
		for j := range w.data.Databases[i].RetentionPolicies {
			rp := &w.data.Databases[i].RetentionPolicies[j]
			for k := range rp.ShardGroups {
				for _, sh := range rp.ShardGroups[k].Shards {
					if sh.ID == id {
						grp, rpi = &rp.ShardGroups[k], rp
					}
				}
			}
		}
	}
	if grp == nil {
		w.mu.Unlock()
		w.run.Fail("unknown-shard-deleted", "store", "retention deleted local shard %d which belongs to no shard group of the metadata", id)
		return nil
	}
	if !grp.Deleted() && !expired(*grp, w.dur(rpi), now) {
		w.mu.Unlock()
		w.run.Fail("live-shard-deleted", "store", "at %v retention deleted shard %d of group %d [%v,%v), duration %v: the group is neither marked deleted nor older than the retention period", now.UTC(), id, grp.ID, grp.StartTime.UTC(), grp.EndTime.UTC(), w.dur(rpi))
		return nil
	}
	w.mu.Unlock()
	sw.smu.Lock()
	defer sw.smu.Unlock()
	if sw.failStore > 0 {
		sw.failStore--
		w.run.Fault("delete-shard-error")
		return errors.New("injected: shard is busy")
	}
	err := sw.sim.Store.DeleteShard(id)
	w.run.Logf("service: DeleteShard(%d) -> %v", id, err)
	if err != nil {
		return err
	}
	for i, sid := range sw.ids {
		if sid == id {
			sw.gone[i] = true
			for _, k := range sw.models[i].SeriesKeys() {
				sw.goneKeys[k] = true
			}
			for k := range sw.models[i].MaybeListed {
				sw.goneKeys[k] = true
			}
		}
	}
	w.run.Probe("local-shard-deleted")
	return nil
}

// checkLive holds every shard that must still be there to its model, and the
// index listings to the union of the live models.
func (sw *storeWorld) checkLive(where string) bool {
	run := sw.run
	sw.w().mu.Lock()
	now := time.Now()
	mustLive := make([]bool, len(sw.ids))
	for i, gid := range sw.groups {
		g, rp := sw.find(gid)
		mustLive[i] = g != nil && !g.Deleted() && !expired(*g, sw.dur(rp), now)
	}
	sw.w().mu.Unlock()
	sw.smu.Lock()
	defer sw.smu.Unlock()
	u := model.NewShard()
	for i, id := range sw.ids {
		sh := sw.sim.Store.Shard(id)
		if sh == nil {
			if mustLive[i] {
				run.Fail("live-shard-missing", "store", "%s: shard %d of a group that is neither deleted nor expired is not in the store", where, id)
				return false
			}
			if !sw.gone[i] {
				run.Fail("shard-vanished", "store", "%s: shard %d is gone although the retention service never removed it", where, id)
				return false
			}
			continue
		}
		if sw.gone[i] {
			run.Fail("removed-shard-is-back", "store", "%s: shard %d was removed by retention enforcement and is in the store again", where, id)
			return false
		}
		if sw.disabled[i] {
			// offline: its data is judged once it is enabled again; its series
			// may or may not be listed meanwhile
			for k := range sw.models[i].Series {
				u.MaybeListed[k] = true
			}
			continue
		}
		obs, err := sw.sim.ReadIterators(id, storesim.FullRange, nil)
		if err != nil {
			run.Fail("read-error", "store", "%s: shard %d: %v", where, id, err)
			return false
		}
		if mm := storesim.CompareExact(sw.models[i], obs, storesim.FullRange, "iterators"); mm != nil {
			run.Fail("unexpired-data-lost", mm.Class, "%s: shard %d (not removed) no longer reads what was written to it: %s", where, id, mm.Detail)
			return false
		}
		obs2, err := sw.sim.ReadCursors(id, storesim.FullRange, storesim.AllSeriesFields(sw.models[i]))
		if err != nil {
			run.Fail("read-error", "store", "%s: shard %d cursors: %v", where, id, err)
			return false
		}
		if mm := storesim.CompareExact(sw.models[i], obs2, storesim.FullRange, "cursors"); mm != nil {
			run.Fail("unexpired-data-lost", mm.Class, "%s: shard %d (not removed) no longer reads what was written to it (cursors): %s", where, id, mm.Detail)
			return false
		}
		for k, s := range sw.models[i].Series {
			if !s.Empty() && u.Series[k] == nil {
				u.Series[k] = &model.Series{M: s.M, Tags: s.Tags, Fields: map[string]map[int64]model.Value{"x": {0: {}}}}
			}
		}
		for k := range sw.models[i].MaybeListed {
			u.MaybeListed[k] = true
		}
	}
	// series of removed shards may or may not linger in the listings: not judged
	for k := range sw.goneKeys {
		u.MaybeListed[k] = true
	}
	for k := range u.MaybeListed {
		if u.Series[k] != nil {
			delete(u.MaybeListed, k)
		}
	}
	for i := range sw.ids {
		if sw.disabled[i] && !sw.gone[i] {
			// the database-wide listings refuse to answer while a shard is offline
			return true
		}
	}
	l, err := sw.sim.List()
	if err != nil {
		run.Fail("read-error", "store", "%s: listing: %v", where, err)
		return false
	}
	if mm := storesim.CompareListing(u, l); mm != nil {
		if mm.Class == "series-with-data-not-listed" || mm.Class == "listing-misses-item" {
			run.Fail("unexpired-series-unlisted", mm.Class, "%s: the index no longer lists what live shards hold: %s", where, mm.Detail)
			return false
		}
		run.Logf("%s: listing difference not judged in this mode: %s: %s", where, mm.Class, mm.Detail)
	}
	return true
}

func (sw *storeWorld) w() *world { return sw.world }

func (sw *storeWorld) diskHas(id uint64) []string {
	var found []string
	for _, d := range []string{"data", "wal"} {
		p := filepath.Join(sw.root, d, storesim.DB, storesim.RP, fmt.Sprint(id))
		if _, err := os.Stat(p); err == nil {
			found = append(found, filepath.Join(d, storesim.DB, storesim.RP, fmt.Sprint(id)))
		}
	}
	return found
}

func execStore(run *core.Run, p *storePlan) {
	w := &world{run: run, data: &meta.Data{}, wantDur: map[string]time.Duration{}}
	sw := &storeWorld{world: w, goneKeys: map[string]bool{}}
	w.data.Index++
	w.data.CreateDataNode("h0:8086", "h0:8088")
	w.data.CreateDatabase(storesim.DB)
	if err := w.data.CreateRetentionPolicy(storesim.DB, &meta.RetentionPolicyInfo{Name: storesim.RP, ReplicaN: 1, Duration: p.RPDur, ShardGroupDuration: time.Hour}, true); err != nil {
		run.Fail("harness-error", "", "CreateRetentionPolicy: %v", err)
		return
	}
	w.wantDur[storesim.RP] = p.RPDur
	now0 := time.Now()
	for i := 0; i < p.NShards; i++ {
		ts := now0.Add(-time.Duration(p.NShards-1-i) * time.Hour)
		if err := w.data.CreateShardGroup(storesim.DB, storesim.RP, ts); err != nil {
			run.Fail("harness-error", "", "CreateShardGroup: %v", err)
			return
		}
		g, err := w.data.ShardGroupByTimestamp(storesim.DB, storesim.RP, ts)
		if err != nil || g == nil || len(g.Shards) != 1 {
			run.Fail("harness-error", "", "ShardGroupByTimestamp(%v): %v %v", ts, g, err)
			return
		}
		sw.groups = append(sw.groups, g.ID)
		sw.ids = append(sw.ids, g.Shards[0].ID)
		sw.models = append(sw.models, model.NewShard())
		sw.gone = append(sw.gone, false)
		sw.disabled = append(sw.disabled, false)
	}
	sw.root = filepath.Join(run.Scratch, "node")
	sw.opts = storesim.Opts{Index: p.Index}
	sim, err := storesim.Open(sw.root, sw.opts)
	if err != nil {
		run.Fail("harness-error", "", "open store: %v", err)
		return
	}
	sw.sim = sim
	defer func() {
		sw.smu.Lock()
		if sw.sim != nil {
			sw.sim.Close()
		}
		sw.smu.Unlock()
	}()
	for _, id := range sw.ids {
		if err := sw.sim.CreateShard(id); err != nil {
			run.Fail("harness-error", "", "CreateShard(%d): %v", id, err)
			return
		}
	}
	cfg := retention.NewConfig()
	cfg.CheckInterval = toml.Duration(interval)
	svc := retention.NewService(cfg)
	svc.MetaClient = metaStub{w}
	svc.TSDBStore = storeRef{sw}
	// the service ticks 7 s past the driver's whole minutes: a pass never
	// coincides with a driver step
	time.Sleep(7 * time.Second)
	if err := svc.Open(); err != nil {
		run.Fail("harness-error", "", "retention Open: %v", err)
		return
	}
	defer svc.Close()
	time.Sleep(53 * time.Second)

	for i, o := range p.Ops {
		if run.Failed() {
			return
		}
		core.Progress()
		run.Op("store-" + o.Kind)
		id := sw.ids[o.Shard]
		switch o.Kind {
		case "offline":
			sw.smu.Lock()
			ok := sw.sim.Store.Shard(id) != nil && !sw.disabled[o.Shard] && sw.sim.Store.SetShardEnabled(id, false) == nil
			if ok {
				sw.disabled[o.Shard] = true
			}
			sw.smu.Unlock()
			if !ok {
				continue
			}
			run.Probe("store-shard-taken-offline")
			run.Logf("op%d shard %d offline for %v", i, id, o.Dur)
			time.Sleep(o.Dur)
			sw.smu.Lock()
			if sw.sim.Store.Shard(id) != nil {
				if err := sw.sim.Store.SetShardEnabled(id, true); err != nil {
					run.Logf("op%d enable shard %d: %v", i, id, err)
				}
			}
			sw.disabled[o.Shard] = false
			sw.smu.Unlock()
			if !sw.checkLive(fmt.Sprintf("op%d after shard %d was offline for %v", i, id, o.Dur)) {
				return
			}
		case "disable", "enable":
			sw.smu.Lock()
			if sw.sim.Store.Shard(id) != nil {
				on := o.Kind == "enable"
				if err := sw.sim.Store.SetShardEnabled(id, on); err == nil {
					sw.disabled[o.Shard] = !on
					run.Logf("op%d shard %d enabled=%v", i, id, on)
					if !on {
						run.Probe("store-shard-taken-offline")
					}
				}
			}
			sw.smu.Unlock()
		case "write", "snapshot", "compact", "read":
			sw.smu.Lock()
			if sw.sim.Store.Shard(id) == nil || sw.disabled[o.Shard] {
				sw.smu.Unlock()
				run.Logf("op%d %s shard %d: shard is gone, skipped", i, o.Kind, id)
				continue
			}
			switch o.Kind {
			case "write":
				if err := sw.sim.Write(id, o.Batch); err != nil {
					sw.smu.Unlock()
					run.Fail("write-failed", "store", "op%d: WriteToShard(%d): %v", i, id, err)
					return
				}
				sw.models[o.Shard].Write(o.Batch)
				run.Logf("op%d write %d points to shard %d", i, len(o.Batch), id)
			case "snapshot":
				if err := sw.sim.Snapshot(id); err != nil {
					run.Logf("op%d snapshot shard %d: %v", i, id, err)
				}
			case "compact":
				sw.sim.Snapshot(id)
				if _, err := sw.sim.Compact(id, storesim.Full, 0); err != nil {
					run.Logf("op%d compact shard %d: %v", i, id, err)
				}
			}
			sw.smu.Unlock()
			if o.Kind == "read" && !sw.checkLive(fmt.Sprintf("op%d read", i)) {
				return
			}
		case "reopen":
			sw.smu.Lock()
			if err := sw.sim.Close(); err != nil {
				sw.smu.Unlock()
				run.Fail("close-failed", "store", "op%d: Close: %v", i, err)
				sw.sim = nil
				return
			}
			ns, err := storesim.Open(sw.root, sw.opts)
			if err != nil {
				sw.sim = nil
				sw.smu.Unlock()
				run.Fail("store-open-failed", "store", "op%d: reopen: %v", i, err)
				return
			}
			sw.sim = ns
			for k := range sw.disabled {
				sw.disabled[k] = false // a restart opens every shard enabled
			}
			sw.smu.Unlock()
			run.Probe("reopen")
			run.Logf("op%d reopen", i)
			if !sw.checkLive(fmt.Sprintf("op%d after restart", i)) {
				return
			}
		case "sleep":
			run.Logf("op%d sleep %v", i, o.Dur)
			time.Sleep(o.Dur)
			if !sw.checkLive(fmt.Sprintf("op%d after %v", i, o.Dur)) {
				return
			}
		case "opdelete":
			w.mu.Lock()
			next := w.data.Clone()
			next.Index++
			err := next.DeleteShardGroup(storesim.DB, storesim.RP, sw.groups[o.Shard])
			if err == nil {
				w.data = next
			}
			w.mu.Unlock()
			run.Logf("op%d operator deletes group %d: %v", i, sw.groups[o.Shard], err)
			if err == nil {
				run.Probe("group-deleted-by-operator")
			}
		case "failmeta":
			w.mu.Lock()
			w.failMeta += o.N
			w.mu.Unlock()
		case "failstore":
			sw.smu.Lock()
			sw.failStore += o.N
			sw.smu.Unlock()
		}
	}
	if run.Failed() {
		return
	}
	// faults stop; three passes later every shard of a deleted or expired group is gone
	w.mu.Lock()
	w.failMeta = 0
	w.mu.Unlock()
	sw.smu.Lock()
	sw.failStore = 0
	for k, id := range sw.ids {
		if sw.disabled[k] && sw.sim.Store.Shard(id) != nil {
			if err := sw.sim.Store.SetShardEnabled(id, true); err != nil {
				run.Logf("enable shard %d: %v", id, err)
			}
		}
		sw.disabled[k] = false
	}
	sw.smu.Unlock()
	time.Sleep(3*interval + time.Minute)
	if !sw.checkLive("after the last pass") {
		return
	}
	w.mu.Lock()
	now := time.Now()
	var mustGo []int
	for i, gid := range sw.groups {
		g, rp := w.find(gid)
		if g == nil {
			continue
		}
		if g.Deleted() || expired(*g, w.dur(rp), now.Add(-3*interval-time.Minute)) {
			mustGo = append(mustGo, i)
			if !g.Deleted() {
				w.mu.Unlock()
				run.Fail("expired-group-not-marked-deleted", "store", "group %d [%v,%v) (duration %v) expired more than three passes ago and is not marked deleted", g.ID, g.StartTime.UTC(), g.EndTime.UTC(), w.dur(rp))
				return
			}
		}
	}
	w.mu.Unlock()
	check := func(where string) bool {
		sw.smu.Lock()
		defer sw.smu.Unlock()
		for _, i := range mustGo {
			if sw.sim.Store.Shard(sw.ids[i]) != nil {
				run.Fail("shard-of-deleted-group-kept", "store", "%s: the store still holds shard %d of deleted group %d three enforcement passes after the last fault", where, sw.ids[i], sw.groups[i])
				return false
			}
			if left := sw.diskHas(sw.ids[i]); len(left) > 0 {
				run.Fail("removed-shard-left-on-disk", "store", "%s: shard %d was removed but %v still exists", where, sw.ids[i], left)
				return false
			}
		}
		return true
	}
	if !check("after the last pass") {
		return
	}
	if len(mustGo) > 0 {
		run.Probe("store-shard-removed-and-verified")
	}
	// a restart brings nothing back and loses nothing
	sw.smu.Lock()
	if err := sw.sim.Close(); err != nil {
		sw.sim = nil
		sw.smu.Unlock()
		run.Fail("close-failed", "store", "final Close: %v", err)
		return
	}
	ns, err := storesim.Open(sw.root, sw.opts)
	if err != nil {
		sw.sim = nil
		sw.smu.Unlock()
		run.Fail("store-open-failed", "store", "final reopen: %v", err)
		return
	}
	sw.sim = ns
	sw.smu.Unlock()
	if !sw.checkLive("after the final restart") || !check("after the final restart") {
		return
	}
	live := 0
	for i := range sw.ids {
		if !sw.gone[i] && len(sw.models[i].SeriesKeys()) > 0 {
			live++
		}
	}
	if len(mustGo) > 0 && live > 0 {
		run.Probe("store-live-shard-verified-beside-removed")
	}
	run.NonTrivial = len(mustGo) > 0
	d := fmt.Sprintf("store:%v", sw.gone)
	for _, m := range sw.models {
		d += m.Digest() + ";"
	}
	run.Digest = d
}

func describeStore(p *storePlan) interface{} {
	var ops []string
	for _, o := range p.Ops {
		switch o.Kind {
		case "write":
			ops = append(ops, fmt.Sprintf("write(shard%d,%d points)", o.Shard+1, len(o.Batch)))
		case "sleep":
			ops = append(ops, fmt.Sprintf("sleep(%v)", o.Dur))
		case "offline":
			ops = append(ops, fmt.Sprintf("offline(shard%d,%v)", o.Shard+1, o.Dur))
		case "failmeta", "failstore":
			ops = append(ops, fmt.Sprintf("%s(n=%d)", o.Kind, o.N))
		case "reopen":
			ops = append(ops, "reopen")
		default:
			ops = append(ops, fmt.Sprintf("%s(shard%d)", o.Kind, o.Shard+1))
		}
	}
	return map[string]interface{}{"mode": "store", "index": p.Index, "shards": p.NShards, "rp_duration": p.RPDur.String(), "ops": ops}
}
