// C17 — retention removes only expired data, and removes all of it.
//
// 1-3 real retention.Services (one per simulated node) run on the fake clock,
// each with a TSDBStore stub (its local shard set, including shards unknown to
// the metadata) and a meta stub over one real meta.Data (DeleteShardGroup and
// PruneShardGroups are the real Data methods applied serially). The plan
// places shard groups relative to "now" (expiring exactly at the boundary
// +-1ns), alters durations (0 = infinite), truncates/deletes groups, advances
// the clock, and injects metadata and DeleteShard errors on seeded passes.
package c17

import (
	"errors"
	"fmt"
	"sort"
	"sync"
	"testing"
	"time"

	"github.com/influxdata/influxdb/services/meta"
	"github.com/influxdata/influxdb/services/retention"
	"github.com/influxdata/influxdb/toml"
	"pgregory.net/rapid"

	"verifsim/core"
	"verifsim/storesim"
)

type op struct {
	Kind string // group, alterdur, delgroup, truncate, sleep, failmeta, failstore, addorphan
	RP   int
	Off  time.Duration // group end relative to now-duration (0 = exactly at the boundary)
	Nano int64
	Dur  time.Duration
	Node int
	N    int
	Cur  int // group: 1 = the group containing now, 2 = the next (pre-created) group
}

type plan struct {
	Store   *storePlan // store mode: the service against a real tsdb.Store (store_test.go)
	Nodes   int
	RPDurs  []time.Duration // per policy; 0 = infinite
	SGDur   time.Duration
	Replica int
	Ops     []op
}

const interval = 30 * time.Minute

func genPlan(t *rapid.T) interface{} {
	if rapid.IntRange(0, 5).Draw(t, "storemode") == 0 {
		return &plan{Store: genStore(t)}
	}
	p := &plan{}
	p.Nodes = rapid.IntRange(1, 3).Draw(t, "nodes")
	p.Replica = rapid.IntRange(1, p.Nodes).Draw(t, "replica")
	p.SGDur = rapid.SampledFrom([]time.Duration{time.Hour, 24 * time.Hour}).Draw(t, "sgdur")
	nrp := rapid.IntRange(1, 2).Draw(t, "nrp")
	for i := 0; i < nrp; i++ {
		p.RPDurs = append(p.RPDurs, rapid.SampledFrom([]time.Duration{0, 24 * time.Hour, 48 * time.Hour, 7 * 24 * time.Hour}).Draw(t, fmt.Sprintf("rpdur%d", i)))
	}
	n := rapid.IntRange(1, 16).Draw(t, "nops")
	for i := 0; i < n; i++ {
		l := fmt.Sprintf("op%d", i)
		rp := rapid.IntRange(0, nrp-1).Draw(t, l+".rp")
		switch k := rapid.IntRange(0, 19).Draw(t, l+".kind"); {
		case k < 7:
			o := op{Kind: "group", RP: rp}
			switch rapid.IntRange(0, 5).Draw(t, l+".ok") {
			case 4:
				o.Cur = 1 // the group writes go to now (what truncation cuts)
			case 5:
				o.Cur = 2 // pre-created next group
			case 0:
				o.Nano = rapid.Int64Range(-2, 2).Draw(t, l+".ns") // at the expiry boundary +-
			case 1:
				o.Off = time.Duration(rapid.Int64Range(int64(-72*time.Hour), 0).Draw(t, l+".off")) // already expired
			default:
				o.Off = time.Duration(rapid.Int64Range(1, int64(96*time.Hour)).Draw(t, l+".off")) // still live
			}
			p.Ops = append(p.Ops, o)
		case k < 9:
			p.Ops = append(p.Ops, op{Kind: "alterdur", RP: rp, Dur: rapid.SampledFrom([]time.Duration{0, 24 * time.Hour, 72 * time.Hour, 30 * 24 * time.Hour}).Draw(t, l+".dur")})
		case k < 10:
			p.Ops = append(p.Ops, op{Kind: "delgroup", RP: rp, N: rapid.IntRange(0, 5).Draw(t, l+".pick")})
		case k < 12:
			p.Ops = append(p.Ops, op{Kind: "truncate"})
		case k < 16:
			if rapid.IntRange(0, 5).Draw(t, l+".long") == 0 {
				// past the two weeks after which groups marked deleted are pruned from the metadata
				p.Ops = append(p.Ops, op{Kind: "sleep", Dur: time.Duration(rapid.IntRange(15, 25).Draw(t, l+".days")) * 24 * time.Hour})
				break
			}
			p.Ops = append(p.Ops, op{Kind: "sleep", Dur: time.Duration(rapid.Int64Range(int64(time.Minute), int64(30*time.Hour)).Draw(t, l+".d"))})
		case k < 17:
			p.Ops = append(p.Ops, op{Kind: "failmeta", N: rapid.IntRange(1, 3).Draw(t, l+".n")})
		case k < 19:
			p.Ops = append(p.Ops, op{Kind: "failstore", Node: rapid.IntRange(0, p.Nodes-1).Draw(t, l+".node"), N: rapid.IntRange(1, 3).Draw(t, l+".n")})
		default:
			p.Ops = append(p.Ops, op{Kind: "addorphan", Node: rapid.IntRange(0, p.Nodes-1).Draw(t, l+".node")})
		}
	}
	return p
}

type world struct {
	mu  sync.Mutex
	run *core.Run
	// wantDur: the retention period each policy was given (at creation or by
	// an acknowledged alteration) - the harness' own record, not read back
	// from the metadata
	wantDur  map[string]time.Duration
	data     *meta.Data
	failMeta int // number of metadata calls still to fail
	nodes    []*node
	// created: every shard group the history created, as it was created
	// (the harness' own record); seenDeleted: groups seen marked deleted
	created     map[uint64]groupRec
	seenDeleted map[uint64]bool
}

type groupRec struct {
	rp         string
	start, end time.Time
	shards     []uint64
}

// integrity holds the metadata to the record of created groups: a group stays
// under its own policy with its own range and shards until it has been marked
// deleted (only then may pruning remove it), and no policy lists a group that
// was created under another one. The caller holds w.mu.
func (w *world) integrity(where string) {
	if w.created == nil {
		return
	}
	present := map[uint64]bool{}
	for _, db := range w.data.Databases {
		for _, rp := range db.RetentionPolicies {
			for _, g := range rp.ShardGroups {
				rec, ok := w.created[g.ID]
				if !ok {
					continue
				}
				if rec.rp != rp.Name {
					w.run.Fail("metadata-group-under-wrong-policy", "", "%s: policy %s lists shard group %d [%v,%v), which was created under policy %s", where, rp.Name, g.ID, g.StartTime.UTC(), g.EndTime.UTC(), rec.rp)
					return
				}
				var ids []uint64
				for _, sh := range g.Shards {
					ids = append(ids, sh.ID)
				}
				if !g.StartTime.Equal(rec.start) || !g.EndTime.Equal(rec.end) || fmt.Sprint(ids) != fmt.Sprint(rec.shards) {
					w.run.Fail("metadata-group-changed", "", "%s: shard group %d of %s was created as [%v,%v) shards %v and now reads [%v,%v) shards %v", where, g.ID, rp.Name, rec.start.UTC(), rec.end.UTC(), rec.shards, g.StartTime.UTC(), g.EndTime.UTC(), ids)
					return
				}
				present[g.ID] = true
				if g.Deleted() {
					w.seenDeleted[g.ID] = true
				}
			}
		}
	}
	var ids []uint64
	for id := range w.created {
		ids = append(ids, id)
	}
	sort.Slice(ids, func(i, j int) bool { return ids[i] < ids[j] })
	for _, id := range ids {
		if !present[id] && !w.seenDeleted[id] {
			rec := w.created[id]
			w.run.Fail("live-group-vanished-from-metadata", "", "%s: shard group %d [%v,%v) of policy %s was never marked deleted and is no longer in the metadata", where, id, rec.start.UTC(), rec.end.UTC(), rec.rp)
			return
		}
	}
}

type node struct {
	w         *world
	id        int
	shards    map[uint64]bool
	failStore int
	svc       *retention.Service
}

type metaStub struct{ w *world }

var errInjected = errors.New("injected metadata error: no leader")

func (m metaStub) Databases() []meta.DatabaseInfo {
	m.w.mu.Lock()
	defer m.w.mu.Unlock()
	return m.w.data.CloneDatabases()
}

// expired is the harness' own statement of the expiry predicate.
func expired(g meta.ShardGroupInfo, dur time.Duration, now time.Time) bool {
	return dur != 0 && g.EndTime.Add(dur).Before(now)
}

// dur is the retention period the policy is supposed to have.
func (w *world) dur(rp *meta.RetentionPolicyInfo) time.Duration {
	if d, ok := w.wantDur[rp.Name]; ok {
		return d
	}
	return rp.Duration
}

func (w *world) find(id uint64) (*meta.ShardGroupInfo, *meta.RetentionPolicyInfo) {
	for i := range w.data.Databases {
		for j := range w.data.Databases[i].RetentionPolicies {
			rp := &w.data.Databases[i].RetentionPolicies[j]
			for k := range rp.ShardGroups {
				if rp.ShardGroups[k].ID == id {
					return &rp.ShardGroups[k], rp
				}
			}
		}
	}
	return nil, nil
}

func (m metaStub) DeleteShardGroup(database, policy string, id uint64) error {
	w := m.w
	w.mu.Lock()
	defer w.mu.Unlock()
	if w.failMeta > 0 {
		w.failMeta--
		w.run.Fault("metadata-error")
		return errInjected
	}
	now := time.Now()
	g, rp := w.find(id)
	if g == nil {
		w.run.Fail("deleted-unknown-group", "", "retention asked to delete shard group %d which the metadata does not have", id)
		return nil
	}
	if !g.Deleted() && !expired(*g, w.dur(rp), now) {
		w.run.Fail("live-group-marked-deleted", "", "at %v retention marked shard group %d [%v,%v) of policy %s (duration %v) deleted although it has not expired (end+duration=%v)", now.UTC(), id, g.StartTime.UTC(), g.EndTime.UTC(), rp.Name, w.dur(rp), g.EndTime.Add(w.dur(rp)).UTC())
		return nil
	}
	next := w.data.Clone()
	next.Index++
	if err := next.DeleteShardGroup(database, policy, id); err != nil {
		return err
	}
	w.data = next
	w.run.Probe("group-marked-deleted")
	w.integrity("after DeleteShardGroup")
	return nil
}

func (m metaStub) PruneShardGroups() error {
	w := m.w
	w.mu.Lock()
	defer w.mu.Unlock()
	if w.failMeta > 0 {
		w.failMeta--
		w.run.Fault("metadata-error")
		return errInjected
	}
	next := w.data.Clone()
	next.Index++
	w.integrity("before PruneShardGroups")
	ngroups := func(d *meta.Data) (n int) {
		for _, db := range d.Databases {
			for _, rp := range db.RetentionPolicies {
				n += len(rp.ShardGroups)
			}
		}
		return
	}
	before := ngroups(next)
	next.PruneShardGroups()
	if ngroups(next) < before {
		w.run.Probe("deleted-group-pruned")
	}
	w.data = next
	w.integrity("after PruneShardGroups")
	return nil
}

func (n *node) ShardIDs() []uint64 {
	n.w.mu.Lock()
	defer n.w.mu.Unlock()
	var ids []uint64
	for id := range n.shards {
		ids = append(ids, id)
	}
	sort.Slice(ids, func(i, j int) bool { return ids[i] < ids[j] })
	return ids
}

func (n *node) DeleteShard(id uint64) error {
	w := n.w
	w.mu.Lock()
	defer w.mu.Unlock()
	now := time.Now()
	// Safety: only shards of a group that is marked deleted or entirely older than the retention period.
	var grp *meta.ShardGroupInfo
	var rpi *meta.RetentionPolicyInfo
	for i := range w.data.Databases {
		for j := range w.data.Databases[i].RetentionPolicies {
			rp := &w.data.Databases[i].RetentionPolicies[j]
			for k := range rp.ShardGroups {
				for _, sh := range rp.ShardGroups[k].Shards {
					if sh.ID == id {
						grp, rpi = &rp.ShardGroups[k], rp
					}
				}
			}
		}
	}
	if grp == nil {
		w.run.Fail("unknown-shard-deleted", "", "node%d: retention deleted local shard %d which belongs to no shard group of the metadata", n.id, id)
		return nil
	}
	if !grp.Deleted() && !expired(*grp, w.dur(rpi), now) {
		w.run.Fail("live-shard-deleted", "", "node%d at %v: retention deleted shard %d of group %d [%v,%v), policy %s duration %v: the group is neither marked deleted nor older than the retention period", n.id, now.UTC(), id, grp.ID, grp.StartTime.UTC(), grp.EndTime.UTC(), rpi.Name, w.dur(rpi))
		return nil
	}
	if w.dur(rpi) == 0 && !grp.Deleted() {
		w.run.Fail("infinite-policy-expired", "", "node%d: shard %d of infinite policy %s deleted", n.id, id, rpi.Name)
		return nil
	}
	if n.failStore > 0 {
		n.failStore--
		w.run.Fault("delete-shard-error")
		return errors.New("injected: shard is busy")
	}
	delete(n.shards, id)
	w.run.Probe("local-shard-deleted")
	return nil
}

func exec(run *core.Run, pl interface{}) {
	p := pl.(*plan)
	if p.Store != nil {
		execStore(run, p.Store)
		return
	}
	w := &world{run: run, data: &meta.Data{}, wantDur: map[string]time.Duration{}, created: map[uint64]groupRec{}, seenDeleted: map[uint64]bool{}}
	for i := 0; i < p.Nodes; i++ {
		w.data.Index++
		w.data.CreateDataNode(fmt.Sprintf("h%d:8086", i), fmt.Sprintf("h%d:8088", i))
	}
	w.data.CreateDatabase("db")
	for i, d := range p.RPDurs {
		sg := p.SGDur
		if d != 0 && d < sg {
			sg = d
		}
		if err := w.data.CreateRetentionPolicy("db", &meta.RetentionPolicyInfo{Name: fmt.Sprintf("rp%d", i), ReplicaN: p.Replica, Duration: d, ShardGroupDuration: sg}, i == 0); err != nil {
			run.Fail("harness-error", "", "CreateRetentionPolicy: %v", err)
			return
		}
		w.wantDur[fmt.Sprintf("rp%d", i)] = d
	}
	cfg := retention.NewConfig()
	cfg.CheckInterval = toml.Duration(interval)
	for i := 0; i < p.Nodes; i++ {
		n := &node{w: w, id: i + 1, shards: map[uint64]bool{}}
		n.svc = retention.NewService(cfg)
		n.svc.MetaClient = metaStub{w}
		n.svc.TSDBStore = n
		w.nodes = append(w.nodes, n)
	}
	// start the services at staggered instants so that their passes never coincide with driver steps
	time.Sleep(7 * time.Second)
	for i, n := range w.nodes {
		if err := n.svc.Open(); err != nil {
			run.Fail("harness-error", "", "retention Open: %v", err)
			return
		}
		time.Sleep(time.Duration(i+1) * 11 * time.Second)
	}
	defer func() {
		for _, n := range w.nodes {
			n.svc.Close()
		}
	}()
	orphan := uint64(1 << 40)
	apply := func(f func(d *meta.Data) error) error {
		w.mu.Lock()
		defer w.mu.Unlock()
		next := w.data.Clone()
		next.Index++
		if err := f(next); err != nil {
			return err
		}
		w.data = next
		return nil
	}
	for i, o := range p.Ops {
		if run.Failed() {
			return
		}
		core.Progress()
		run.Op(o.Kind)
		rpName := fmt.Sprintf("rp%d", o.RP)
		switch o.Kind {
		case "group":
			w.mu.Lock()
			rp, _ := w.data.RetentionPolicy("db", rpName)
			dur := w.wantDur[rpName]
			w.mu.Unlock()
			// choose a timestamp such that the group's end sits at now-duration+Off(+Nano)
			now := time.Now()
			end := now.Add(-dur).Add(o.Off).Add(time.Duration(o.Nano))
			ts := end.Add(-time.Nanosecond)
			if o.Cur == 1 {
				ts = now
			} else if o.Cur == 2 {
				ts = now.Add(p.SGDur)
			}
			before := map[uint64]bool{}
			w.mu.Lock()
			for _, g := range rp.ShardGroups {
				before[g.ID] = true
			}
			w.mu.Unlock()
			if err := apply(func(d *meta.Data) error { return d.CreateShardGroup("db", rpName, ts) }); err != nil {
				run.Logf("op%d create group: %v", i, err)
				continue
			}
			// owners receive their shards
			w.mu.Lock()
			rp2, _ := w.data.RetentionPolicy("db", rpName)
			for _, g := range rp2.ShardGroups {
				if before[g.ID] {
					continue
				}
				for _, sh := range g.Shards {
					for _, ow := range sh.Owners {
						for _, n := range w.nodes {
							if uint64(n.id) == ow.NodeID {
								n.shards[sh.ID] = true
							}
						}
					}
				}
				rec := groupRec{rp: rpName, start: g.StartTime, end: g.EndTime}
				for _, sh := range g.Shards {
					rec.shards = append(rec.shards, sh.ID)
				}
				w.created[g.ID] = rec
				run.Logf("op%d group %d [%v,%v) in %s (duration %v), now %v", i, g.ID, g.StartTime.UTC(), g.EndTime.UTC(), rpName, dur, now.UTC())
			}
			w.mu.Unlock()
		case "alterdur":
			d := o.Dur
			err := apply(func(x *meta.Data) error {
				return x.UpdateRetentionPolicy("db", rpName, &meta.RetentionPolicyUpdate{Duration: &d}, false)
			})
			run.Logf("op%d alter duration of %s to %v: %v", i, rpName, d, err)
			if err == nil {
				w.mu.Lock()
				w.wantDur[rpName] = d
				w.mu.Unlock()
				run.Probe("duration-altered")
			}
		case "delgroup":
			w.mu.Lock()
			rp, _ := w.data.RetentionPolicy("db", rpName)
			var id uint64
			if len(rp.ShardGroups) > 0 {
				id = rp.ShardGroups[o.N%len(rp.ShardGroups)].ID
			}
			w.mu.Unlock()
			if id != 0 {
				apply(func(x *meta.Data) error { return x.DeleteShardGroup("db", rpName, id) })
				run.Logf("op%d group %d marked deleted by an operator", i, id)
				run.Probe("group-deleted-by-operator")
			}
		case "truncate":
			now := time.Now()
			apply(func(x *meta.Data) error { x.TruncateShardGroups(now); return nil })
			run.Logf("op%d truncate at now", i)
			w.mu.Lock()
			for _, db := range w.data.Databases {
				for _, rp := range db.RetentionPolicies {
					for _, g := range rp.ShardGroups {
						if g.Truncated() && !g.Deleted() && w.wantDur[rp.Name] != 0 {
							run.Probe("finite-group-truncated")
						}
					}
				}
			}
			w.mu.Unlock()
		case "sleep":
			time.Sleep(o.Dur)
			run.Logf("op%d sleep %v", i, o.Dur)
		case "failmeta":
			w.mu.Lock()
			w.failMeta += o.N
			w.mu.Unlock()
		case "failstore":
			w.mu.Lock()
			w.nodes[o.Node].failStore += o.N
			w.mu.Unlock()
		case "addorphan":
			orphan++
			w.mu.Lock()
			w.nodes[o.Node].shards[orphan] = true
			w.mu.Unlock()
			run.Probe("orphan-shard")
		}
	}
	if run.Failed() {
		return
	}
	// Faults stop. Bounded liveness: within 2 passes every expired group is
	// marked deleted, within 3 every node has dropped its shards of deleted groups.
	w.mu.Lock()
	w.failMeta = 0
	for _, n := range w.nodes {
		n.failStore = 0
	}
	w.mu.Unlock()
	time.Sleep(2*interval + time.Minute)
	w.mu.Lock()
	now := time.Now()
	for _, db := range w.data.Databases {
		for _, rp := range db.RetentionPolicies {
			for _, g := range rp.ShardGroups {
				// expired for longer than the two passes just waited for
				if !g.Deleted() && expired(g, w.wantDur[rp.Name], now.Add(-2*interval-time.Minute)) {
					run.Fail("expired-group-not-marked-deleted", "", "group %d [%v,%v) of %s (duration %v) expired before %v but is still not marked deleted two enforcement passes after the last fault", g.ID, g.StartTime.UTC(), g.EndTime.UTC(), rp.Name, w.wantDur[rp.Name], now.Add(-2*interval).UTC())
				}
			}
		}
	}
	w.mu.Unlock()
	if run.Failed() {
		return
	}
	time.Sleep(interval + time.Minute)
	w.mu.Lock()
	defer w.mu.Unlock()
	for _, db := range w.data.Databases {
		for _, rp := range db.RetentionPolicies {
			for _, g := range rp.ShardGroups {
				if !g.Deleted() {
					continue
				}
				for _, sh := range g.Shards {
					for _, n := range w.nodes {
						if n.shards[sh.ID] {
							run.Fail("shard-of-deleted-group-kept", "", "node%d still holds shard %d of deleted group %d three enforcement passes after the last fault", n.id, sh.ID, g.ID)
							return
						}
					}
				}
			}
		}
	}
	for _, n := range w.nodes {
		for id := range n.shards {
			if id >= 1<<40 {
				run.Probe("orphan-kept")
			}
		}
	}
	run.NonTrivial = run.Probes["group-marked-deleted"]+run.Probes["local-shard-deleted"] > 0
	run.Digest = fmt.Sprintf("idx%d", w.data.Index)
}

func describe(pl interface{}) interface{} {
	p := pl.(*plan)
	if p.Store != nil {
		return describeStore(p.Store)
	}
	var ops []string
	for _, o := range p.Ops {
		switch o.Kind {
		case "group":
			ops = append(ops, fmt.Sprintf("group(rp%d end=now-duration%+v%+dns)", o.RP, o.Off, o.Nano))
		case "alterdur", "sleep":
			ops = append(ops, fmt.Sprintf("%s(rp%d,%v)", o.Kind, o.RP, o.Dur))
		default:
			ops = append(ops, fmt.Sprintf("%s(node%d,n=%d)", o.Kind, o.Node+1, o.N))
		}
	}
	var ds []string
	for _, d := range p.RPDurs {
		ds = append(ds, d.String())
	}
	return map[string]interface{}{"nodes": p.Nodes, "replica": p.Replica, "rp_durations": ds, "shard_duration": p.SGDur.String(), "ops": ops}
}

func TestC17(t *testing.T) {
	core.Main(t, core.Harness{
		Property:       "C17",
		Gen:            genPlan,
		Exec:           exec,
		Bubble:         true,
		Warmup:         storesim.Warmup,
		Describe:       describe,
		Tier:           "A",
		RequiredProbes: []string{"group-marked-deleted", "local-shard-deleted", "duration-altered", "orphan-kept", "group-deleted-by-operator", "finite-group-truncated", "deleted-group-pruned", "store-shard-removed-and-verified", "store-live-shard-verified-beside-removed"},
		Real:           []string{"retention.Service (run loop, ticker on the fake clock)", "meta.Data (ExpiredShardGroups, DeletedShardGroups, DeleteShardGroup, PruneShardGroups, CreateShardGroup, UpdateRetentionPolicy, TruncateShardGroups)", "store mode (1 run in 6): tsdb.Store.DeleteShard / ShardIDs on a real store (inmem, tsi1) with series file, WAL, TSM files, restarts"},
		Stub:           []string{"metadata mode: TSDBStore (local shard set, DeleteShard with injected failures)", "meta client (serialised apply over real meta.Data, injected errors)"},
		Assumptions:    []string{"the write-time cut-off ('a write is dropped as too old only if older than the retention period') is checked by C08's MapShards harness", "fault windows are short (<=3 calls); a shard whose deletion keeps failing for longer than the two-week pruning horizon is not explored"},
		Rule:           "a run = seeded history of shard groups placed around the expiry boundary (+-1ns), duration changes (incl. infinite), operator deletes, truncation, clock advances up to 30h, injected metadata / DeleteShard errors, orphan local shards, under 1-3 real retention services ticking every 30 fake minutes; safety oracle at every DeleteShardGroup/DeleteShard call, bounded-liveness oracle after faults stop; non-trivial = at least one group marked deleted or local shard removed by the service. Store mode: 3-18 steps (write / snapshot / compact / restart / sleep 1-300 min / operator delete / failing metadata or DeleteShard calls / read) on 2-4 real shards; live shards compared with their models after every sleep, restart and at the end",
	})
}
