// C18 — backup, restore and shard copy reproduce the shard exactly.
//
// A source store is built by a seeded history (cache + files + tombstones +
// un-snapshotted cache). Then, on the still open source: a full BackupShard is
// streamed into a buffer (in some runs with an acknowledged write parked
// inside the backup's own cache snapshot) and restored with RestoreShard into
// a shard of a second, fresh store - the path a shard copy between data nodes
// takes; the stream is also cut at seeded byte offsets (tar block and entry
// boundaries included) and offered to RestoreShard, which must then fail
// rather than leave a half-populated shard that would be advertised as a
// replica. A time-bounded ExportShard/ImportShard is compared with the model
// restricted to the range.
package c18

import (
	"bytes"
	"fmt"
	"os"
	"path/filepath"
	"sort"
	"strings"
	"testing"
	"time"

	"github.com/influxdata/influxdb/pkg/verifhook"
	"pgregory.net/rapid"

	"verifsim/core"
	"verifsim/model"
	"verifsim/storesim"
)

var profile = storesim.Profile{
	Name: "C18", WWrite: 30, WBig: 4, WSnapshot: 14, WCompact: 8, WCompactFiles: 5, WBurst: 4,
	WDelete: 10, WDropSeries: 2, WReopen: 3, WRead: 1,
	CheckReads: false, MaxOps: 25, MaxShards: 1,
}

type plan struct {
	H       *storesim.HPlan
	Tape    []uint64
	During  []model.Point // written while the backup's snapshot is in flight (may be nil)
	Cuts    int
	RPC     *rpcPlan // the shard copy through the cluster's RPCs
	Flush   int      // 1: the fsync of the snapshot file the backup forces fails; 2: snapshots are disabled on the shard
	ExportA int64
	ExportB int64
}

func genPlan(t *rapid.T) interface{} {
	if rapid.IntRange(0, 4).Draw(t, "rpcmode") == 0 {
		return &plan{RPC: genRPC(t)}
	}
	p := &plan{H: storesim.GenHPlan(t, &profile)}
	p.Tape = storesim.GenTape(t, 32, "tape")
	if rapid.IntRange(0, 2).Draw(t, "during") == 0 {
		p.During = storesim.GenBatch(t, 4, "during")
	}
	p.Cuts = rapid.IntRange(0, 6).Draw(t, "cuts")
	if f := rapid.IntRange(0, 5).Draw(t, "flushfault"); f <= 2 {
		p.Flush = f
	}
	a, b := storesim.GenTime(t, "exp.a"), storesim.GenTime(t, "exp.b")
	if a > b {
		a, b = b, a
	}
	p.ExportA, p.ExportB = a, b
	return p
}

func restrict(m *model.Shard, lo, hi int64) *model.Shard {
	c := m.Clone()
	for k, s := range c.Series {
		for _, f := range s.Fields {
			for t := range f {
				if t < lo || t > hi {
					delete(f, t)
				}
			}
		}
		if s.Empty() {
			delete(c.Series, k)
		}
	}
	return c
}

func compareStore(run *core.Run, what string, sim *storesim.Sim, id uint64, want *model.Shard, alt *model.Shard) bool {
	obsI, err := sim.ReadIterators(id, storesim.FullRange, nil)
	if err != nil {
		run.Fail("read-error", "", "%s: %v", what, err)
		return false
	}
	mm := storesim.CompareExact(want, obsI, storesim.FullRange, "iterators")
	if mm != nil && alt != nil {
		if storesim.CompareExact(alt, obsI, storesim.FullRange, "iterators") == nil {
			want, mm = alt, nil
		}
	}
	if mm != nil {
		run.Fail("copy-differs-from-source", "", "%s: %s", what, mm.Detail)
		return false
	}
	obsC, err := sim.ReadCursors(id, storesim.FullRange, storesim.AllSeriesFields(want))
	if err != nil {
		run.Fail("read-error", "", "%s: %v", what, err)
		return false
	}
	if mm := storesim.CompareExact(want, obsC, storesim.FullRange, "cursors"); mm != nil {
		run.Fail("copy-differs-from-source", "", "%s: %s", what, mm.Detail)
		return false
	}
	return true
}

func restoreTo(run *core.Run, root, index string, id uint64, data []byte) (*storesim.Sim, error) {
	os.RemoveAll(root)
	dst, err := storesim.Open(root, storesim.Opts{Index: index})
	if err != nil {
		run.Fail("harness-error", "", "open destination: %v", err)
		return nil, nil
	}
	if err := dst.CreateShard(id); err != nil {
		dst.Close()
		run.Fail("harness-error", "", "create destination shard: %v", err)
		return nil, nil
	}
	return dst, dst.Store.RestoreShard(id, bytes.NewReader(data))
}

func exec(run *core.Run, pl interface{}) {
	p := pl.(*plan)
	if p.RPC != nil {
		execRPC(run, p.RPC)
		return
	}
	tape := &storesim.Tape{V: p.Tape}
	h := &storesim.History{Run: run, Pr: &profile, Plan: p.H, Root: filepath.Join(run.Scratch, "src")}
	h.Epilogue = func(h *storesim.History) {
		src := h.Sim
		id := h.ShardID(0)
		before := h.Models[0].Clone()
		var after *model.Shard
		// backup, optionally with an acknowledged write while its snapshot is in flight
		if p.During != nil {
			done := false
			verifhook.SetYield(func(ev string, args ...interface{}) {
				if ev == "engine.snapshot.written" && !done {
					done = true
					if err := src.Write(id, p.During); err != nil {
						run.Fail("write-failed", "", "write during backup: %v", err)
						return
					}
					h.Models[0].Write(p.During)
					run.Probe("write-during-backup")
				}
			})
		}
		var buf bytes.Buffer
		// The backup first flushes the cache to a file. When that flush fails
		// the backup must fail too, or else contain the cached points some
		// other way: a "successful" backup of the files alone is a copy that
		// silently lacks every point not yet snapshotted.
		if p.Flush != 0 && p.During == nil {
			switch p.Flush {
			case 1:
				h.FailNextFsync()
			case 2:
				src.Store.Shard(id).SetCompactionsEnabled(false)
			}
			err := src.Store.BackupShard(id, time.Time{}, &buf)
			fired := p.Flush == 2 || !h.FsyncFaultPending()
			h.ClearFaults()
			if p.Flush == 2 {
				src.Store.Shard(id).SetCompactionsEnabled(true)
			}
			if err != nil {
				run.Logf("backup with failing flush refused: %v", err)
				run.Probe("backup-refused-on-flush-failure")
				buf.Reset()
			} else if fired {
				run.Probe("backup-succeeded-despite-flush-fault")
				dst, rerr := restoreTo(run, filepath.Join(run.Scratch, "dstf"), p.H.Index, id, buf.Bytes())
				if dst == nil {
					return
				}
				if rerr != nil {
					dst.Close()
					run.Fail("restore-failed", "", "RestoreShard of a backup reported complete (taken while the cache flush failed): %v", rerr)
					return
				}
				ok := compareStore(run, "destination restored from a backup taken while the cache flush failed (the backup reported success)", dst, id, before, nil)
				dst.Close()
				if !ok {
					return
				}
				buf.Reset()
			} else {
				buf.Reset()
			}
			if !compareStore(run, "source after the backup with a failing flush", src, id, h.Models[0], nil) {
				return
			}
		}
		err := src.Store.BackupShard(id, time.Time{}, &buf)
		verifhook.SetYield(nil)
		if err != nil {
			run.Fail("backup-failed", "", "BackupShard: %v", err)
			return
		}
		if p.During != nil {
			after = h.Models[0].Clone()
		}
		run.Logf("backup: %d bytes", buf.Len())
		// the source is unchanged by being backed up (apart from the write made meanwhile)
		if !compareStore(run, "source after backup", src, id, h.Models[0], nil) {
			return
		}
		// full restore into a fresh store = shard copy
		restore := func(name string, data []byte) (*storesim.Sim, error) {
			root := filepath.Join(run.Scratch, name)
			os.RemoveAll(root)
			dst, err := storesim.Open(root, storesim.Opts{Index: p.H.Index})
			if err != nil {
				run.Fail("harness-error", "", "open destination: %v", err)
				return nil, nil
			}
			if err := dst.CreateShard(id); err != nil {
				dst.Close()
				run.Fail("harness-error", "", "create destination shard: %v", err)
				return nil, nil
			}
			return dst, dst.Store.RestoreShard(id, bytes.NewReader(data))
		}
		dst, err := restore("dst", buf.Bytes())
		if dst == nil {
			return
		}
		if err != nil {
			dst.Close()
			run.Fail("restore-failed", "", "RestoreShard of a complete backup stream: %v", err)
			return
		}
		ok := compareStore(run, "destination after restore", dst, id, before, after)
		if ok {
			// and after a restart of the destination
			dst.Close()
			d2, err := storesim.Open(dst.Root, dst.Opts)
			if err != nil {
				run.Fail("store-open-failed", "", "destination reopen: %v", err)
				return
			}
			ok = compareStore(run, "destination after restore and restart", d2, id, before, after)
			d2.Close()
			run.Probe("restore-verified")
		} else {
			dst.Close()
		}
		if !ok {
			return
		}
		// connection failures: the stream cut at seeded offsets must not restore successfully
		total := buf.Len()
		for c := 0; c < p.Cuts && total > 0; c++ {
			var cut int
			switch tape.Choose(4) {
			case 0:
				cut = 512 * tape.Choose(total/512+1) // tar block / entry boundaries
			case 1:
				cut = total - 1024 // just before the end-of-archive blocks
			case 2:
				cut = total - 1 - tape.Choose(1024)
			default:
				cut = tape.Choose(total)
			}
			if cut < 0 {
				cut = 0
			}
			if cut >= total {
				continue
			}
			d, err := restore("dstcut", buf.Bytes()[:cut])
			if d == nil {
				return
			}
			run.Fault("stream-cut")
			if cut%512 == 0 {
				run.Probe("cut-at-block-boundary")
			}
			if err == nil {
				// a "successful" restore of an incomplete stream is only harmless if nothing is missing
				obs, rerr := d.ReadIterators(id, storesim.FullRange, nil)
				d.Close()
				if rerr != nil || storesim.CompareExact(before, obs, storesim.FullRange, "iterators") != nil {
					if after == nil || storesim.CompareExact(after, obs, storesim.FullRange, "iterators") != nil {
						run.Fail("truncated-copy-reported-complete", "", "backup stream of %d bytes cut after %d bytes (%d tar blocks): RestoreShard returned success but the destination does not hold the source's content - the copy would be advertised as a replica", total, cut, cut/512)
						return
					}
				}
				run.Probe("cut-lost-nothing")
				continue
			}
			d.Close()
			run.Probe("cut-detected")
		}
		// time-bounded export/import
		var ebuf bytes.Buffer
		if err := src.Store.ExportShard(id, time.Unix(0, p.ExportA), time.Unix(0, p.ExportB), &ebuf); err != nil {
			run.Fail("export-failed", "", "ExportShard[%d,%d]: %v", p.ExportA, p.ExportB, err)
			return
		}
		root := filepath.Join(run.Scratch, "dstexp")
		de, err := storesim.Open(root, storesim.Opts{Index: p.H.Index})
		if err != nil {
			run.Fail("harness-error", "", "open export destination: %v", err)
			return
		}
		defer de.Close()
		if err := de.CreateShard(id); err != nil {
			run.Fail("harness-error", "", "create export destination shard: %v", err)
			return
		}
		if err := de.Store.ImportShard(id, bytes.NewReader(ebuf.Bytes())); err != nil {
			run.Fail("import-failed", "", "ImportShard: %v", err)
			return
		}
		want := restrict(h.Models[0], p.ExportA, p.ExportB)
		obs, err := de.ReadIterators(id, storesim.FullRange, nil)
		if err != nil {
			run.Fail("read-error", "", "export destination: %v", err)
			return
		}
		if mm := storesim.CompareExact(want, obs, storesim.FullRange, "iterators"); mm != nil {
			// What kind of difference? A point of the range that is missing or
			// altered, and data the source never held, are losses/corruption.
			// Points of the source outside the range are the recorded
			// block-granularity finding.
			got := map[string]model.Value{}
			for key, fs := range obs {
				for f, tvs := range fs {
					for _, tv := range tvs {
						got[fmt.Sprintf("%s\x00%s\x00%d", key, f, tv.T)] = tv.V
					}
				}
			}
			var keys []string
			for key := range want.Series {
				keys = append(keys, key)
			}
			sort.Strings(keys)
			for _, key := range keys {
				s := want.Series[key]
				var fns []string
				for f := range s.Fields {
					fns = append(fns, f)
				}
				sort.Strings(fns)
				for _, f := range fns {
					var ts []int64
					for t := range s.Fields[f] {
						ts = append(ts, t)
					}
					sort.Slice(ts, func(i, j int) bool { return ts[i] < ts[j] })
					for _, t := range ts {
						v, ok := got[fmt.Sprintf("%s\x00%s\x00%d", key, f, t)]
						if !ok || !v.Equal(s.Fields[f][t]) {
							run.Fail("export-misses-point-in-range", "", "ExportShard[%d,%d] -> ImportShard: %s %s @%d = %v lies in the range but the imported copy has %v (present=%v)", p.ExportA, p.ExportB, key, f, t, s.Fields[f][t], v, ok)
							return
						}
					}
				}
			}
			// anything the copy holds inside the range must be the source's
			// current value (checked above for the points of the range): an
			// extra point inside the range is data the source does not hold
			// there (resurrected or stale)
			for id, v := range got {
				parts := strings.SplitN(id, "\x00", 3)
				var t int64
				fmt.Sscan(parts[2], &t)
				if t < p.ExportA || t > p.ExportB {
					continue // outside the range: the recorded block-granularity finding
				}
				if s, ok := want.Series[parts[0]]; ok {
					if _, ok := s.Fields[parts[1]][t]; ok {
						continue
					}
				}
				run.Fail("export-has-data-the-source-never-held", "", "ExportShard[%d,%d] -> ImportShard: %s %s @%d = %v lies in the range but the source holds no such point", p.ExportA, p.ExportB, parts[0], parts[1], t, v)
				return
			}
			run.Fail("export-differs-from-source-range", "", "ExportShard[%d,%d] -> ImportShard: %s", p.ExportA, p.ExportB, mm.Detail)
			return
		}
		run.Probe("export-verified")
		run.NonTrivial = true
	}
	h.Exec()
}

func describe(pl interface{}) interface{} {
	p := pl.(*plan)
	if p.RPC != nil {
		var steps []string
		for _, s := range p.RPC.Steps {
			steps = append(steps, fmt.Sprintf("write(%d)+%s %s", len(s.Batch), s.Op, s.Cond))
		}
		return map[string]interface{}{"mode": "rpc", "index": p.RPC.Index, "fault": fmt.Sprintf("%s/%d", p.RPC.Fault, p.RPC.K), "steps": steps}
	}
	d := storesim.DescribeHPlan(p.H).(map[string]interface{})
	d["write_during_backup"] = len(p.During)
	d["stream_cuts"] = p.Cuts
	d["export_range"] = fmt.Sprintf("[%d,%d]", p.ExportA, p.ExportB)
	return d
}

func TestC18(t *testing.T) {
	core.Main(t, core.Harness{
		Property:       "C18",
		Gen:            genPlan,
		Exec:           exec,
		Bubble:         true,
		Warmup:         storesim.Warmup,
		Describe:       describe,
		Tier:           "B",
		RequiredProbes: []string{"restore-verified", "write-during-backup", "cut-detected", "cut-at-block-boundary", "export-verified", "rpc-copy-verified", "rpc-copy-refused", "rpc-copy-verified-under-fault", "rpc-copy-retried-after-failure", "rpc-copy-again-verified"},
		Real:           []string{"tsdb.Store.BackupShard / RestoreShard / ExportShard / ImportShard", "tsm1.Engine.Backup, CreateSnapshot, overlay, readFileFromBackup", "pkg/tar stream", "the storage engine underneath (as C02)", "RPC mode (1 run in 5): coordinator.Client.CopyShard, coordinator.Service processCopyShardRequest / backupRemoteShard / processBackupShardRequest on two real data nodes behind tcp.Mux"},
		Stub:           []string{"the network between source and destination: in the store mode the backup stream is carried in a buffer and cut at seeded offsets (what a reset connection delivers); in RPC mode it is the simulated network (fragmenting, slow, reset or closed cleanly after a drawn number of bytes); the meta handler that adds the owner after a successful copy is not run"},
		Assumptions:    []string{"incremental backups (since != epoch) are not explored: the filter compares file mtimes, which the kernel stamps with real time while the simulation runs on a fake clock"},
		Rule:           "a run = seeded source history, then full backup (1/3 with an acknowledged write parked inside the backup's snapshot) restored into a fresh store and compared through both read paths (also after a restart), 0-6 cuts of the stream (block boundaries, before the trailer, random) offered to RestoreShard, and a time-bounded export/import compared with the model restricted to the range; non-trivial = the full restore was verified. RPC mode (1 run in 5): 1-6 write batches with snapshot / full compaction / delete steps on node 1, then the real copy-shard request to node 2 over a faulted connection between the nodes; a copy reported complete must read exactly like the source, the request must return, and a copy that failed under the fault is retried over a healthy network and must then succeed and be faithful",
	})
}
