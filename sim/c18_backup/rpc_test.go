package c18

// RPC mode: the shard copy as the cluster performs it. Two real data nodes
// on the simulated network; node 1 holds a shard built by drawn write batches
// with cache snapshots, a full compaction and deletes in between; the real
// coordinator.Client asks node 2 to copy the shard (copy-shard request), node 2
// fetches it from node 1 with a backup-shard request and restores it. The
// stream between the two is fragmented, slowed, reset or closed cleanly after
// a drawn number of bytes, or the source has no such shard. A copy reported
// as successful must read exactly like the source.

import (
	"fmt"
	"os"
	"path/filepath"
	"time"

	"github.com/influxdata/influxdb/coordinator"
	"github.com/influxdata/influxdb/services/meta"
	"pgregory.net/rapid"

	"verifsim/clustersim"
	"verifsim/core"
	"verifsim/model"
	"verifsim/simnet"
	"verifsim/storesim"
)

type rpcStep struct {
	Batch []model.Point
	Op    string // none, snapshot, compact, delete
	Cond  string
}

type rpcPlan struct {
	Steps   []rpcStep
	Fault   string // none, slow, reset, close, noshard
	K       int64
	Index   string
	Cleanup bool
	// PreCreate: the destination already has the (empty) shard. Forced for
	// the slow stream: a shard the copy request creates itself starts its
	// compaction loops, which wait on the engine lock the restore holds while
	// it reads the stream - a sync.RWMutex wait is not durable in a synctest
	// bubble, so simulated time (the stream's latency timers) could not pass.
	PreCreate bool
	// Again: after a verified copy the source goes on (the drawn steps, with
	// deletes that leave tombstones beside files the destination already
	// holds under the same names) and the shard is copied once more onto the
	// same destination - a refresh, or a second attempt by an operator
	Again []rpcStep
}

func genRPC(t *rapid.T) *rpcPlan {
	p := &rpcPlan{}
	p.Index = rapid.SampledFrom([]string{"inmem", "tsi1"}).Draw(t, "rpc.index")
	n := rapid.IntRange(1, 6).Draw(t, "rpc.nsteps")
	for i := 0; i < n; i++ {
		l := fmt.Sprintf("rpc.s%d", i)
		st := rpcStep{Batch: storesim.GenBatch(t, 6, l), Op: rapid.SampledFrom([]string{"none", "snapshot", "snapshot", "compact", "delete"}).Draw(t, l+".op")}
		if st.Op == "delete" {
			st.Cond = rapid.SampledFrom([]string{"a = 'x'", "b = 'p'", "a = 'y' AND b = 'q'"}).Draw(t, l+".cond")
		}
		p.Steps = append(p.Steps, st)
	}
	p.Fault = rapid.SampledFrom([]string{"none", "none", "slow", "reset", "close", "close", "noshard"}).Draw(t, "rpc.fault")
	p.K = int64(rapid.IntRange(0, 6000).Draw(t, "rpc.k"))
	if rapid.Bool().Draw(t, "rpc.kblock") {
		p.K = p.K / 512 * 512 // tar block boundaries
	}
	p.PreCreate = rapid.Bool().Draw(t, "rpc.precreate") || p.Fault == "slow"
	if rapid.IntRange(0, 2).Draw(t, "rpc.again") == 0 {
		for i, n := 0, rapid.IntRange(1, 3).Draw(t, "rpc.nagain"); i < n; i++ {
			l := fmt.Sprintf("rpc.a%d", i)
			st := rpcStep{Batch: storesim.GenBatch(t, 4, l), Op: rapid.SampledFrom([]string{"delete", "delete", "none", "snapshot"}).Draw(t, l+".op")}
			if st.Op == "delete" {
				st.Cond = rapid.SampledFrom([]string{"a = 'x'", "b = 'p'", "a = 'y' AND b = 'q'", "time >= 0 AND time <= 20"}).Draw(t, l+".cond")
			}
			p.Again = append(p.Again, st)
		}
	}
	return p
}

func execRPC(run *core.Run, p *rpcPlan) {
	fault := p.Fault // "none" again for a retry
	data := &meta.Data{}
	for i := 1; i <= 2; i++ {
		data.Index++
		if err := data.CreateDataNode(fmt.Sprintf("node%d:8086", i), clustersim.Addr(uint64(i))); err != nil {
			run.Fail("harness-error", "", "CreateDataNode: %v", err)
			return
		}
	}
	data.CreateDatabase(storesim.DB)
	data.CreateRetentionPolicy(storesim.DB, &meta.RetentionPolicyInfo{Name: storesim.RP, ReplicaN: 1, Duration: 0, ShardGroupDuration: time.Hour}, true)
	c, err := clustersim.New(filepath.Join(run.Scratch, "c"), data, p.Index)
	if err != nil {
		run.Fail("harness-error", "", "cluster: %v", err)
		return
	}
	defer c.Close()
	src, dst := c.Node(1), c.Node(2)
	const id = 7
	if err := src.Sim.CreateShard(id); err != nil {
		run.Fail("harness-error", "", "CreateShard: %v", err)
		return
	}
	m := model.NewShard()
	for i, st := range p.Steps {
		if err := src.Sim.Write(id, st.Batch); err != nil {
			run.Logf("step%d write: %v", i, err)
		} else {
			m.Write(st.Batch)
		}
		switch st.Op {
		case "snapshot":
			src.Sim.Snapshot(id)
		case "compact":
			src.Sim.Snapshot(id)
			src.Sim.Compact(id, storesim.Full, 0)
		case "delete":
			if err := src.Sim.DeleteWhere(nil, st.Cond); err != nil {
				run.Logf("step%d delete %q: %v", i, st.Cond, err)
			}
		}
	}
	// the source as it reads now is the truth the copy is held to
	obsSrc, err := src.Sim.ReadIterators(id, storesim.FullRange, nil)
	if err != nil {
		run.Fail("read-error", "", "source: %v", err)
		return
	}
	want := storesim.FromObserved(obsSrc, nil)
	closes := 0
	c.Net.OnFault = func(kind string) {
		run.Fault("net-" + kind)
		if kind == "close-mid-stream" {
			closes++
		}
	}
	c.Net.PolicyFor = func(addr string, n int) simnet.Policy {
		pol := simnet.NoFault
		if addr != clustersim.Addr(1) {
			return pol
		}
		switch fault {
		case "slow":
			pol.Latency = time.Duration(5+p.K%40) * time.Millisecond
			pol.Fragment = int(1 + p.K%700)
		case "reset":
			pol.ResetS2C = p.K
		case "close":
			pol.CloseS2C = p.K
		}
		return pol
	}
	if p.PreCreate {
		if err := dst.Sim.CreateShard(id); err != nil {
			run.Fail("harness-error", "", "CreateShard on the destination: %v", err)
			return
		}
	}
	shard := uint64(id)
	if fault == "noshard" {
		shard = 99 // the source has no such shard: its backup request fails on the source
	}
	done := make(chan error, 1)
	go func() {
		done <- coordinator.NewClient(nil, 30*time.Second).CopyShard(clustersim.Addr(2), clustersim.Addr(1), storesim.DB, storesim.RP, shard, time.Time{})
	}()
	var cerr error
	select {
	case cerr = <-done:
	case <-time.After(10 * time.Minute):
		run.Fail("copy-never-returns", "", "the copy-shard request did not return within 10 simulated minutes (fault %s/%d)", fault, p.K)
		return
	}
	run.Logf("copy-shard with fault %s/%d -> %v", fault, p.K, cerr)
	if cerr != nil {
		run.Probe("rpc-copy-refused")
		run.NonTrivial = true
		if fault == "noshard" {
			return
		}
		// the operator retries once the network is healthy again: the copy
		// left behind by the failed attempt (an empty or partial shard) must
		// not keep the retry from producing a faithful copy
		fault = "none"
		closes = 0
		retried := make(chan error, 1)
		go func() {
			retried <- coordinator.NewClient(nil, 30*time.Second).CopyShard(clustersim.Addr(2), clustersim.Addr(1), storesim.DB, storesim.RP, shard, time.Time{})
		}()
		select {
		case cerr = <-retried:
		case <-time.After(10 * time.Minute):
			run.Fail("copy-never-returns", "", "the retried copy-shard request did not return within 10 simulated minutes")
			return
		}
		run.Logf("retried copy-shard without faults -> %v", cerr)
		if cerr != nil {
			run.Fail("copy-retry-refused", "rpc", "a copy-shard request failed under a network fault; its retry over a healthy network fails as well: %v", cerr)
			return
		}
		run.Probe("rpc-copy-retried-after-failure")
	}
	if fault == "noshard" {
		run.Fail("truncated-copy-reported-complete", "", "copy of shard %d, which the source does not have, was reported as successful: the source's failed backup request ends the stream cleanly and the destination takes the empty stream for a complete archive", shard)
		return
	}
	obsDst, err := dst.Sim.ReadIterators(id, storesim.FullRange, nil)
	if err != nil {
		run.Fail("read-error", "", "destination after a copy reported complete: %v", err)
		return
	}
	if mm := storesim.CompareExact(want, obsDst, storesim.FullRange, "iterators"); mm != nil {
		if closes > 0 {
			run.Fail("truncated-copy-reported-complete", "", "copy-shard over a stream the source closed cleanly after %d bytes was reported as successful, but the destination differs from the source: %s", p.K, mm.Detail)
			return
		}
		run.Fail("copy-differs-from-source", "rpc", "copy-shard (fault %s/%d) was reported as successful, but the destination differs from the source: %s", fault, p.K, mm.Detail)
		return
	}
	// nothing extra either
	back := storesim.FromObserved(obsDst, nil)
	if mm := storesim.CompareExact(back, obsSrc, storesim.FullRange, "iterators"); mm != nil {
		run.Fail("copy-differs-from-source", "rpc", "the destination holds data the source does not: %s", mm.Detail)
		return
	}
	run.Probe("rpc-copy-verified")
	if p.Fault != "none" {
		run.Probe("rpc-copy-verified-under-fault")
	}
	if len(p.Again) > 0 && fault != "noshard" {
		fault, closes = "none", 0
		for i, st := range p.Again {
			if err := src.Sim.Write(id, st.Batch); err != nil {
				run.Logf("again step%d write: %v", i, err)
			}
			run.Logf("again step%d: write %v then %s %s", i, st.Batch, st.Op, st.Cond)
			switch st.Op {
			case "snapshot":
				src.Sim.Snapshot(id)
			case "delete":
				if err := src.Sim.DeleteWhere(nil, st.Cond); err != nil {
					run.Logf("again step%d delete %q: %v", i, st.Cond, err)
				}
			}
		}
		obsSrc2, err := src.Sim.ReadIterators(id, storesim.FullRange, nil)
		if err != nil {
			run.Fail("read-error", "", "source: %v", err)
			return
		}
		again := make(chan error, 1)
		go func() {
			again <- coordinator.NewClient(nil, 30*time.Second).CopyShard(clustersim.Addr(2), clustersim.Addr(1), storesim.DB, storesim.RP, shard, time.Time{})
		}()
		select {
		case cerr = <-again:
		case <-time.After(10 * time.Minute):
			run.Fail("copy-never-returns", "", "the second copy-shard request did not return within 10 simulated minutes")
			return
		}
		run.Logf("second copy-shard onto the same destination -> %v (source files %v, destination files %v)", cerr, tsmFiles(src.Sim.Root, id), tsmFiles(dst.Sim.Root, id))
		if cerr != nil {
			run.Fail("copy-retry-refused", "rpc-again", "a second copy of the shard onto a destination that already holds an earlier copy fails over a healthy network: %v", cerr)
			return
		}
		obsDst2, err := dst.Sim.ReadIterators(id, storesim.FullRange, nil)
		if err != nil {
			run.Fail("read-error", "", "destination after the second copy: %v", err)
			return
		}
		if mm := storesim.CompareExact(storesim.FromObserved(obsSrc2, nil), obsDst2, storesim.FullRange, "iterators"); mm != nil {
			run.Fail("copy-differs-from-source", "rpc-again", "the shard was copied, changed on the source (writes, deletes) and copied again onto the same destination; the second copy was reported as successful but the destination differs from the source: %s", mm.Detail)
			return
		}
		if mm := storesim.CompareExact(storesim.FromObserved(obsDst2, nil), obsSrc2, storesim.FullRange, "iterators"); mm != nil {
			run.Fail("copy-differs-from-source", "rpc-again", "after the second copy the destination holds data the source does not (deleted on the source in between?): %s", mm.Detail)
			return
		}
		run.Probe("rpc-copy-again-verified")
	}
	run.NonTrivial = true
	run.Digest = fmt.Sprintf("rpc/%s/%d", p.Fault, len(p.Steps))
}

func tsmFiles(root string, id uint64) []string {
	var out []string
	ents, _ := os.ReadDir(filepath.Join(root, "data", storesim.DB, storesim.RP, fmt.Sprint(id)))
	for _, e := range ents {
		if !e.IsDir() {
			fi, _ := e.Info()
			out = append(out, fmt.Sprintf("%s(%d)", e.Name(), fi.Size()))
		}
	}
	return out
}
