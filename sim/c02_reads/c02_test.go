// C02 — reads equal a last-write-wins model of the shard.
package c02

import (
	"path/filepath"
	"testing"

	"pgregory.net/rapid"

	"verifsim/core"
	"verifsim/storesim"
)

var profile = storesim.Profile{
	Name: "C02", WWrite: 30, WBig: 5, WConflict: 6, WRewrite: 4, WSnapshot: 14, WCompact: 12, WCompactFiles: 8, WBurst: 5, WStagger: 3,
	WDelete: 8, WDropSeries: 1, WDropMeas: 1, WReopen: 3, WRead: 16,
	Windows: true, CheckReads: true, MaxOps: 40, MaxShards: 1,
}

func TestC02(t *testing.T) {
	core.Main(t, core.Harness{
		Property: "C02",
		Gen:      func(t *rapid.T) interface{} { return storesim.GenHPlan(t, &profile) },
		Exec: func(run *core.Run, pl interface{}) {
			h := &storesim.History{Run: run, Pr: &profile, Plan: pl.(*storesim.HPlan), Root: filepath.Join(run.Scratch, "store")}
			h.Exec()
			run.NonTrivial = run.Probes["window-write"]+run.Probes["window-read"]+run.Probes["compaction-level1"]+run.Probes["compaction-full"]+run.Probes["compaction-arbitrary-group"]+run.Probes["type-conflict-points"] > 0
		},
		Bubble:         true,
		Warmup:         storesim.Warmup,
		Describe:       func(pl interface{}) interface{} { return storesim.DescribeHPlan(pl.(*storesim.HPlan)) },
		Tier:           "A",
		RequiredProbes: []string{"window-write", "window-read", "window-delete", "type-conflict-points", "rewrite", "compaction-level1", "compaction-full", "compaction-arbitrary-group", "reopen"},
		Real:           []string{"tsdb.Store", "tsdb.Shard", "tsm1 engine (WAL, cache, compactor, file store, tombstoner, iterators, array cursors)", "series file", "inmem and tsi1 index", "real files on tmpfs"},
		Stub:           []string{"none; background tickers are off, the driver issues every snapshot and compaction through the engine's own entry points"},
		Assumptions:    []string{"a new field given two types inside one batch is outside the sentence 'already has in the shard'; conflicts are injected only against a field that currently holds data"},
		Rule:           "a run = seeded history of writes (5 types, duplicates, out-of-order and extreme times), type-conflicting and identical re-writes, snapshots (with an operation parked inside the snapshot window), level/full/optimize/arbitrary compactions, range deletes, reopen; after every step both read paths (iterators, array cursors) over the full range and drawn ranges/directions must equal the model exactly; non-trivial = a snapshot window op, a compaction or a type conflict actually happened",
	})
}
