// C09 — snapshot and compaction never change what reads return.
package c09

import (
	"path/filepath"
	"testing"

	"pgregory.net/rapid"

	"verifsim/core"
	"verifsim/storesim"
)

var profile = storesim.Profile{
	Name: "C09", WWrite: 22, WBig: 8, WSnapshot: 16, WCompact: 20, WCompactFiles: 12, WBurst: 8, WStagger: 8,
	WDelete: 8, WDropSeries: 1, WReopen: 3, WRead: 4,
	Windows: true, Faults: true, CheckReads: true, CheckFiles: true, MaxOps: 40, MaxShards: 1,
}

func TestC09(t *testing.T) {
	core.Main(t, core.Harness{
		Property: "C09",
		Gen:      func(t *rapid.T) interface{} { return storesim.GenHPlan(t, &profile) },
		Exec: func(run *core.Run, pl interface{}) {
			h := &storesim.History{Run: run, Pr: &profile, Plan: pl.(*storesim.HPlan), Root: filepath.Join(run.Scratch, "store")}
			h.Exec()
			run.NonTrivial = run.Probes["compaction-level1"]+run.Probes["compaction-level2"]+run.Probes["compaction-full"]+run.Probes["compaction-optimize"]+run.Probes["compaction-arbitrary-group"]+run.Faults["compaction-aborted"]+run.Faults["eio-at-file-finishing"]+run.Faults["eio-at-tsm-fsync"] > 0
		},
		Bubble:         true,
		Warmup:         storesim.Warmup,
		Describe:       func(pl interface{}) interface{} { return storesim.DescribeHPlan(pl.(*storesim.HPlan)) },
		Tier:           "A",
		RequiredProbes: []string{"compaction-level1", "compaction-level2", "compaction-full", "compaction-arbitrary-group", "multi-block-key", "snapshot-failed-by-injection"},
		Real:           []string{"tsdb.Store", "tsdb.Shard", "tsm1 engine (WAL, cache, compactor, file store, tombstoner, iterators, array cursors)", "series file", "inmem and tsi1 index", "real files on tmpfs"},
		Stub:           []string{"none; background tickers are off, the driver issues every snapshot and compaction through the engine's own entry points"},
		Assumptions:    []string{"points per block are not held to Compactor.Size (cache snapshots chunk at 1000 and the fast path copies blocks as they are)"},
		Rule:           "a run = seeded history building overlapping generations (tombstones, multi-block keys, five types) with snapshots and level/full/optimize/arbitrary-group compactions, some with an injected fault (observer error at install, fsync error on the tmp file, abort part-way); after every step logical content read through both read paths must equal the model, live TSM files must have sorted keys and sorted non-overlapping index entries (<=65535 per key), and no tmp file may survive a restart; non-trivial = a compaction or an injected fault actually happened",
	})
}
