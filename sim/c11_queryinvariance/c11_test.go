// Package c11_queryinvariance decides C11: the result of a SELECT depends only
// on the logical data and the statement. One run draws a data set (series of
// two measurements, float/integer/string/boolean fields, irregular timestamps
// around shard boundaries, overwrites), a write history (batches, with cache
// snapshots and compactions in between) and one statement of the covered
// grammar, and evaluates the statement
//
//	(R) by a direct reference evaluation over the logical points,
//	(0) on one node, one shard, everything in the cache,
//	(A) on one node with a drawn shard-group duration, the drawn batches and
//	    the drawn snapshot/compaction steps between them,
//	(B) on a cluster of 2-3 real nodes (drawn replication, drawn coordinator)
//	    with another shard-group duration and other storage steps.
//
// All four must agree.
package c11_queryinvariance

import (
	"fmt"
	"math"
	"path/filepath"
	"sort"
	"strconv"
	"strings"
	"testing"
	"time"

	"github.com/influxdata/influxdb/models"
	"github.com/influxdata/influxdb/query"
	"github.com/influxdata/influxdb/services/meta"
	"github.com/influxdata/influxql"
	"pgregory.net/rapid"

	"verifsim/clustersim"
	"verifsim/core"
	"verifsim/storesim"
)

var t0 = time.Date(2000, 1, 1, 0, 0, 0, 0, time.UTC)

const span = 4 * 3600 // seconds of the time universe

type pt struct {
	M    string
	A, B string
	T    int64 // seconds from t0
	F    *float64
	I    *int64
	S    *string
	Bo   *bool
}

type storageOp struct {
	Kind string // none, snapshot, compact
	Pick int
}

type layout struct {
	Nodes   int
	RF      int
	Coord   int
	SGHours int
	Batches []int // batch sizes (cumulative cut points are derived)
	Ops     []storageOp
	Index   string
}

type spec struct {
	M       string
	Field   string
	Fn      string // "" = raw
	HasMin  bool
	HasMax  bool
	TMin    int64 // seconds
	TMax    int64 // seconds, exclusive
	PredKey string
	PredOp  string
	PredVal string
	GTime   int64 // seconds; 0 = no time grouping
	GOff    int64
	Dims    []string
	Fill    string // "", none, null, previous, linear, or a number
	Desc    bool
	Limit   int
	Offset  int
	SLimit  int
	SOffset int
}

type plan struct {
	Points []pt
	Stmt   spec
	A, B   layout
	// Ties: several series of a measurement may hold a point at the same
	// timestamp. The statement is then an aggregate (the order of raw rows of
	// equal time is unspecified). Which of several points of the earliest
	// (latest) time first/last choose is not specified either: for those two
	// the layouts are held against each other only, not against the reference.
	Ties bool
}

var timeCandidates = func() []int64 {
	var c []int64
	for h := int64(0); h < 4; h++ {
		for _, o := range []int64{0, 1, 2, 30, 1799, 1800, 3598, 3599} {
			c = append(c, h*3600+o)
		}
	}
	return c
}()

func genLayout(t *rapid.T, l string, cluster bool, npoints int) layout {
	lay := layout{Nodes: 1, RF: 1, Coord: 1}
	if cluster {
		lay.Nodes = rapid.IntRange(2, 3).Draw(t, l+".nodes")
		lay.RF = rapid.IntRange(1, lay.Nodes).Draw(t, l+".rf")
		lay.Coord = rapid.IntRange(1, lay.Nodes).Draw(t, l+".coord")
	}
	lay.SGHours = rapid.SampledFrom([]int{1, 1, 2, 4}).Draw(t, l+".sgh")
	lay.Index = rapid.SampledFrom([]string{"inmem", "tsi1"}).Draw(t, l+".index")
	left := npoints
	for left > 0 {
		n := rapid.IntRange(1, left).Draw(t, fmt.Sprintf("%s.b%d", l, len(lay.Batches)))
		lay.Batches = append(lay.Batches, n)
		lay.Ops = append(lay.Ops, storageOp{
			Kind: rapid.SampledFrom([]string{"none", "none", "snapshot", "snapshot", "compact"}).Draw(t, fmt.Sprintf("%s.op%d", l, len(lay.Ops))),
			Pick: rapid.IntRange(0, 7).Draw(t, fmt.Sprintf("%s.pick%d", l, len(lay.Ops))),
		})
		left -= n
	}
	return lay
}

func genPlan(t *rapid.T) interface{} {
	p := &plan{}
	p.Ties = rapid.IntRange(0, 3).Draw(t, "ties") == 0
	n := rapid.IntRange(1, 28).Draw(t, "npoints")
	type key struct {
		m string
		t int64
	}
	owner := map[key][2]string{}
	for i := 0; i < n; i++ {
		l := fmt.Sprintf("p%d", i)
		q := pt{
			M: rapid.SampledFrom([]string{"m0", "m0", "m1"}).Draw(t, l+".m"),
			A: rapid.SampledFrom([]string{"", "x", "y"}).Draw(t, l+".a"),
			B: rapid.SampledFrom([]string{"", "p"}).Draw(t, l+".b"),
		}
		if p.Ties && rapid.Bool().Draw(t, l+".tie") {
			// few distinct instants, in different shard groups: series meet
			q.T = rapid.SampledFrom([]int64{0, 1, 3599, 3600, 9000}).Draw(t, l+".tt")
		} else if rapid.IntRange(0, 3).Draw(t, l+".tk") == 0 {
			q.T = int64(rapid.IntRange(0, span-1).Draw(t, l+".t"))
		} else {
			q.T = rapid.SampledFrom(timeCandidates).Draw(t, l+".tc")
		}
		// a timestamp belongs to one series per measurement: a second point at
		// the same time is an overwrite of that series
		if o, ok := owner[key{q.M, q.T}]; ok && !p.Ties {
			q.A, q.B = o[0], o[1]
		} else {
			owner[key{q.M, q.T}] = [2]string{q.A, q.B}
		}
		mask := rapid.IntRange(1, 15).Draw(t, l+".fields")
		if mask&1 != 0 {
			v := float64(rapid.IntRange(-64, 64).Draw(t, l+".f")) / 8
			q.F = &v
		}
		if mask&2 != 0 {
			v := int64(rapid.IntRange(-20, 20).Draw(t, l+".i"))
			q.I = &v
		}
		if mask&4 != 0 {
			v := rapid.SampledFrom([]string{"", "s1", "s2", "zz"}).Draw(t, l+".s")
			q.S = &v
		}
		if mask&8 != 0 {
			v := rapid.Bool().Draw(t, l+".bo")
			q.Bo = &v
		}
		p.Points = append(p.Points, q)
	}
	// statement
	s := &p.Stmt
	s.M = rapid.SampledFrom([]string{"m0", "m0", "m1"}).Draw(t, "s.m")
	if rapid.IntRange(0, 2).Draw(t, "s.mfirst") > 0 {
		s.M = p.Points[0].M // mostly a measurement that has data
	}
	if rapid.IntRange(0, 2).Draw(t, "s.raw") == 0 && !p.Ties {
		s.Field = rapid.SampledFrom([]string{"f", "i", "s", "bo"}).Draw(t, "s.rawfield")
	} else {
		s.Fn = rapid.SampledFrom([]string{"count", "sum", "mean", "min", "max", "first", "last", "spread", "median"}).Draw(t, "s.fn")
		if p.Ties && rapid.Bool().Draw(t, "s.tiefn") {
			s.Fn = rapid.SampledFrom([]string{"first", "last", "min", "max"}).Draw(t, "s.tiefnv")
		}
		switch s.Fn {
		case "count", "first", "last":
			s.Field = rapid.SampledFrom([]string{"f", "i", "s", "bo"}).Draw(t, "s.aggfield")
		default:
			s.Field = rapid.SampledFrom([]string{"f", "i"}).Draw(t, "s.numfield")
		}
	}
	bound := func(l string) int64 {
		if rapid.Bool().Draw(t, l+".cand") {
			return rapid.SampledFrom(timeCandidates).Draw(t, l+".c")
		}
		return int64(rapid.IntRange(0, span).Draw(t, l+".v"))
	}
	s.HasMin = rapid.IntRange(0, 2).Draw(t, "s.hasmin") == 0
	s.HasMax = rapid.IntRange(0, 2).Draw(t, "s.hasmax") == 0
	s.TMin, s.TMax = bound("s.tmin"), bound("s.tmax")
	if s.TMin > s.TMax {
		s.TMin, s.TMax = s.TMax, s.TMin
	}
	if s.TMin == s.TMax {
		s.TMax++
	}
	if rapid.IntRange(0, 2).Draw(t, "s.pred") == 0 {
		s.PredKey = rapid.SampledFrom([]string{"a", "b"}).Draw(t, "s.pk")
		s.PredOp = rapid.SampledFrom([]string{"=", "!="}).Draw(t, "s.pop")
		s.PredVal = rapid.SampledFrom([]string{"x", "y", "p", ""}).Draw(t, "s.pv")
	}
	if s.Fn != "" && rapid.IntRange(0, 2).Draw(t, "s.gt") > 0 && !(p.Ties && rapid.Bool().Draw(t, "s.tienogt")) {
		s.GTime = rapid.SampledFrom([]int64{1, 7, 60, 1800, 3600, 5000, 7200}).Draw(t, "s.gtime")
		if rapid.IntRange(0, 3).Draw(t, "s.goff") == 0 {
			s.GOff = rapid.SampledFrom([]int64{1, 17, 900}).Draw(t, "s.goffv") % s.GTime
		}
		s.HasMin, s.HasMax = true, true
		// keep the number of windows moderate
		if (s.TMax-s.TMin)/s.GTime > 400 {
			s.TMax = s.TMin + 400*s.GTime
		}
		s.Fill = rapid.SampledFrom([]string{"", "", "none", "null", "previous", "linear", "7"}).Draw(t, "s.fill")
		// numeric and interpolating fills are judged on numeric columns only
		if (s.Fill == "7" || s.Fill == "linear") && s.Field != "f" && s.Field != "i" {
			s.Fill = "previous"
		}
	}
	s.Dims = rapid.SampledFrom([][]string{nil, nil, {"a"}, {"b"}, {"a", "b"}}).Draw(t, "s.dims")
	s.Desc = rapid.IntRange(0, 2).Draw(t, "s.desc") == 0
	if rapid.IntRange(0, 2).Draw(t, "s.lim") == 0 {
		s.Limit = rapid.IntRange(1, 4).Draw(t, "s.limit")
		s.Offset = rapid.IntRange(0, 3).Draw(t, "s.offset")
	}
	if len(s.Dims) > 0 && rapid.IntRange(0, 3).Draw(t, "s.slim") == 0 {
		s.SLimit = rapid.IntRange(1, 3).Draw(t, "s.slimit")
		s.SOffset = rapid.IntRange(0, 2).Draw(t, "s.soffset")
	}
	p.A = genLayout(t, "A", false, n)
	p.B = genLayout(t, "B", true, n)
	return p
}

func ts(sec int64) string { return t0.Add(time.Duration(sec) * time.Second).Format(time.RFC3339) }

func (s *spec) text() string {
	var b strings.Builder
	b.WriteString("SELECT ")
	if s.Fn == "" {
		fmt.Fprintf(&b, "%q", s.Field)
	} else {
		fmt.Fprintf(&b, "%s(%q)", s.Fn, s.Field)
	}
	fmt.Fprintf(&b, " FROM %q", s.M)
	var conds []string
	if s.HasMin {
		conds = append(conds, fmt.Sprintf("time >= '%s'", ts(s.TMin)))
	}
	if s.HasMax {
		conds = append(conds, fmt.Sprintf("time < '%s'", ts(s.TMax)))
	}
	if s.PredKey != "" {
		conds = append(conds, fmt.Sprintf("%q %s '%s'", s.PredKey, s.PredOp, s.PredVal))
	}
	if len(conds) > 0 {
		b.WriteString(" WHERE " + strings.Join(conds, " AND "))
	}
	var dims []string
	if s.GTime > 0 {
		if s.GOff > 0 {
			dims = append(dims, fmt.Sprintf("time(%ds, %ds)", s.GTime, s.GOff))
		} else {
			dims = append(dims, fmt.Sprintf("time(%ds)", s.GTime))
		}
	}
	for _, d := range s.Dims {
		dims = append(dims, fmt.Sprintf("%q", d))
	}
	if len(dims) > 0 {
		b.WriteString(" GROUP BY " + strings.Join(dims, ", "))
	}
	if s.Fill != "" {
		fmt.Fprintf(&b, " fill(%s)", s.Fill)
	}
	if s.Desc {
		b.WriteString(" ORDER BY time DESC")
	}
	if s.Limit > 0 {
		fmt.Fprintf(&b, " LIMIT %d", s.Limit)
	}
	if s.Offset > 0 {
		fmt.Fprintf(&b, " OFFSET %d", s.Offset)
	}
	if s.SLimit > 0 {
		fmt.Fprintf(&b, " SLIMIT %d", s.SLimit)
	}
	if s.SOffset > 0 {
		fmt.Fprintf(&b, " SOFFSET %d", s.SOffset)
	}
	return b.String()
}

// ---- logical data ----

type cell struct {
	f  *float64
	i  *int64
	s  *string
	bo *bool
}

type series struct {
	m    string
	a, b string
	at   map[int64]*cell
}

func logical(points []pt) map[string]*series {
	out := map[string]*series{}
	for _, q := range points {
		k := q.M + "|" + q.A + "|" + q.B
		sr := out[k]
		if sr == nil {
			sr = &series{m: q.M, a: q.A, b: q.B, at: map[int64]*cell{}}
			out[k] = sr
		}
		c := sr.at[q.T]
		if c == nil {
			c = &cell{}
			sr.at[q.T] = c
		}
		if q.F != nil {
			c.f = q.F
		}
		if q.I != nil {
			c.i = q.I
		}
		if q.S != nil {
			c.s = q.S
		}
		if q.Bo != nil {
			c.bo = q.Bo
		}
	}
	return out
}

func (c *cell) field(name string) (interface{}, bool) {
	switch name {
	case "f":
		if c.f != nil {
			return *c.f, true
		}
	case "i":
		if c.i != nil {
			return *c.i, true
		}
	case "s":
		if c.s != nil {
			return *c.s, true
		}
	case "bo":
		if c.bo != nil {
			return *c.bo, true
		}
	}
	return nil, false
}

// ---- reference evaluation ----

type rp struct {
	t int64 // seconds
	v interface{}
}

type outRow struct {
	t   int64 // nanoseconds since the epoch
	v   interface{}
	nul bool
}

// linInt is a linearly interpolated value of an integer column: the exact
// point on the line. Which neighbouring integer a query returns for it (the
// rounding of the conversion) is not part of the semantics.
type linInt float64

func fmtVal(v interface{}) string {
	switch x := v.(type) {
	case nil:
		return "null"
	case linInt:
		return "~" + strconv.FormatFloat(float64(x), 'g', -1, 64)
	case float64:
		return strconv.FormatFloat(x, 'g', -1, 64)
	case int64:
		return strconv.FormatInt(x, 10)
	case uint64:
		return strconv.FormatUint(x, 10)
	case string:
		return strconv.Quote(x)
	case bool:
		return strconv.FormatBool(x)
	default:
		return fmt.Sprintf("?%T:%v", v, v)
	}
}

func toF(v interface{}) float64 {
	switch x := v.(type) {
	case float64:
		return x
	case int64:
		return float64(x)
	}
	return math.NaN()
}

// refMaxTie: the largest number of points sharing the instant first/last had
// to choose at, over all groups of the statement being evaluated.
var refMaxTie int

// aggregate computes fn over the points of one window (ascending by time).
// ok=false: no value (empty window). selT: the time of the selected point for
// selectors.
func aggregate(fn string, pts []rp) (v interface{}, selT int64, ok bool) {
	if len(pts) == 0 {
		return nil, 0, false
	}
	_, isInt := pts[0].v.(int64)
	switch fn {
	case "count":
		return int64(len(pts)), 0, true
	case "sum":
		if isInt {
			var s int64
			for _, p := range pts {
				s += p.v.(int64)
			}
			return s, 0, true
		}
		var s float64
		for _, p := range pts {
			s += p.v.(float64)
		}
		return s, 0, true
	case "mean":
		var s float64
		for _, p := range pts {
			s += toF(p.v)
		}
		return s / float64(len(pts)), 0, true
	case "min", "max":
		best := pts[0]
		for _, p := range pts[1:] {
			a, b := toF(p.v), toF(best.v)
			if (fn == "min" && a < b) || (fn == "max" && a > b) {
				best = p
			}
		}
		return best.v, best.t, true
	case "first", "last":
		at := pts[0].t
		if fn == "last" {
			at = pts[len(pts)-1].t
		}
		// how many points (of different series) share the chosen instant
		n := 0
		for _, p := range pts {
			if p.t == at {
				n++
			}
		}
		if n > refMaxTie {
			refMaxTie = n
		}
		if fn == "first" {
			return pts[0].v, pts[0].t, true
		}
		return pts[len(pts)-1].v, pts[len(pts)-1].t, true
	case "spread":
		lo, hi := pts[0], pts[0]
		for _, p := range pts[1:] {
			if toF(p.v) < toF(lo.v) {
				lo = p
			}
			if toF(p.v) > toF(hi.v) {
				hi = p
			}
		}
		if isInt {
			return hi.v.(int64) - lo.v.(int64), 0, true
		}
		return hi.v.(float64) - lo.v.(float64), 0, true
	case "median":
		vals := make([]float64, len(pts))
		for i, p := range pts {
			vals[i] = toF(p.v)
		}
		sort.Float64s(vals)
		n := len(vals)
		if n%2 == 1 {
			return vals[n/2], 0, true
		}
		return (vals[n/2-1] + vals[n/2]) / 2, 0, true
	}
	return nil, 0, false
}

func isSelector(fn string) bool { return fn == "min" || fn == "max" || fn == "first" || fn == "last" }

func reference(data map[string]*series, s *spec) string {
	// candidate series and points
	type group struct {
		tags map[string]string
		id   string
		pts  []rp
	}
	groups := map[string]*group{}
	tmin, tmax := int64(math.MinInt64), int64(math.MaxInt64)
	if s.HasMin {
		tmin = s.TMin
	}
	if s.HasMax {
		tmax = s.TMax
	}
	for _, sr := range data {
		if sr.m != s.M {
			continue
		}
		tagOf := func(k string) string {
			if k == "a" {
				return sr.a
			}
			return sr.b
		}
		if s.PredKey != "" {
			eq := tagOf(s.PredKey) == s.PredVal
			if (s.PredOp == "=") != eq {
				continue
			}
		}
		tags := map[string]string{}
		var idp []string
		for _, d := range s.Dims {
			tags[d] = tagOf(d)
			idp = append(idp, tagOf(d))
		}
		id := strings.Join(idp, "\x00")
		for t, c := range sr.at {
			if t < tmin || t >= tmax {
				continue
			}
			v, ok := c.field(s.Field)
			if !ok {
				continue
			}
			g := groups[id]
			if g == nil {
				g = &group{tags: tags, id: id}
				groups[id] = g
			}
			g.pts = append(g.pts, rp{t, v})
		}
	}
	var order []*group
	for _, g := range groups {
		sort.Slice(g.pts, func(i, j int) bool { return g.pts[i].t < g.pts[j].t })
		order = append(order, g)
	}
	sort.Slice(order, func(i, j int) bool {
		if s.Desc {
			return order[i].id > order[j].id
		}
		return order[i].id < order[j].id
	})
	sec := int64(time.Second)
	base := t0.UnixNano()
	var out []string
	emitted := 0
	for gi, g := range order {
		var rows []outRow
		switch {
		case s.Fn == "":
			for _, p := range g.pts {
				rows = append(rows, outRow{t: base + p.t*sec, v: p.v})
			}
			if s.Desc {
				for i, j := 0, len(rows)-1; i < j; i, j = i+1, j-1 {
					rows[i], rows[j] = rows[j], rows[i]
				}
			}
		case s.GTime == 0:
			v, selT, ok := aggregate(s.Fn, g.pts)
			if ok {
				t := int64(0)
				if s.HasMin {
					t = base + s.TMin*sec
				}
				if isSelector(s.Fn) {
					t = base + selT*sec
				}
				rows = append(rows, outRow{t: t, v: v})
			}
		default:
			// windows [w, w+GTime) aligned to the epoch plus offset, covering [TMin, TMax)
			absMin := base/sec + s.TMin // seconds since the epoch
			absMax := base/sec + s.TMax
			first := floorDiv(absMin-s.GOff, s.GTime)*s.GTime + s.GOff
			type win struct {
				start int64
				v     interface{}
				ok    bool
			}
			var wins []win
			for w := first; w < absMax; w += s.GTime {
				var in []rp
				for _, p := range g.pts {
					ap := base/sec + p.t
					if ap >= w && ap < w+s.GTime {
						in = append(in, p)
					}
				}
				v, _, ok := aggregate(s.Fn, in)
				wins = append(wins, win{w, v, ok})
			}
			fill := s.Fill
			if fill == "" {
				fill = "null"
			}
			if s.Fn == "count" && fill == "null" {
				fill = "0"
			}
			// fills look at the rows already produced: with ORDER BY time DESC
			// "previous" is the later window
			if s.Desc {
				for i, j := 0, len(wins)-1; i < j; i, j = i+1, j-1 {
					wins[i], wins[j] = wins[j], wins[i]
				}
			}
			for i, w := range wins {
				if w.ok {
					rows = append(rows, outRow{t: w.start * sec, v: w.v})
					continue
				}
				switch fill {
				case "none":
				case "null":
					rows = append(rows, outRow{t: w.start * sec, nul: true})
				case "previous":
					var pv interface{}
					found := false
					for j := i - 1; j >= 0; j-- {
						if wins[j].ok {
							pv, found = wins[j].v, true
							break
						}
					}
					rows = append(rows, outRow{t: w.start * sec, v: pv, nul: !found})
				case "linear":
					pi, ni := -1, -1
					for j := i - 1; j >= 0; j-- {
						if wins[j].ok {
							pi = j
							break
						}
					}
					for j := i + 1; j < len(wins); j++ {
						if wins[j].ok {
							ni = j
							break
						}
					}
					if pi < 0 || ni < 0 {
						rows = append(rows, outRow{t: w.start * sec, nul: true})
						break
					}
					switch a := wins[pi].v.(type) {
					case float64:
						b := wins[ni].v.(float64)
						rows = append(rows, outRow{t: w.start * sec, v: a + (b-a)*float64(i-pi)/float64(ni-pi)})
					case int64:
						b := wins[ni].v.(int64)
						if (b-a)*int64(i-pi)%int64(ni-pi) == 0 {
							rows = append(rows, outRow{t: w.start * sec, v: a + (b-a)*int64(i-pi)/int64(ni-pi)})
						} else {
							rows = append(rows, outRow{t: w.start * sec, v: linInt(float64(a) + float64(b-a)*float64(i-pi)/float64(ni-pi))})
						}
					default:
						rows = append(rows, outRow{t: w.start * sec, nul: true})
					}
				default:
					n, _ := strconv.ParseFloat(fill, 64)
					var fv interface{} = n
					// the fill value takes the type of the column
					for _, x := range wins {
						if x.ok {
							if _, isInt := x.v.(int64); isInt {
								fv = int64(n)
							}
							break
						}
					}
					rows = append(rows, outRow{t: w.start * sec, v: fv})
				}
			}
		}
		if s.Offset > 0 {
			if s.Offset >= len(rows) {
				rows = nil
			} else {
				rows = rows[s.Offset:]
			}
		}
		if s.Limit > 0 && len(rows) > s.Limit {
			rows = rows[:s.Limit]
		}
		if len(rows) == 0 {
			continue
		}
		_ = gi
		if emitted < s.SOffset {
			emitted++
			continue
		}
		if s.SLimit > 0 && emitted-s.SOffset >= s.SLimit {
			break
		}
		emitted++
		out = append(out, renderSeries(s.M, g.tags, rows))
	}
	return strings.Join(out, "\n")
}

func floorDiv(a, b int64) int64 {
	q := a / b
	if (a%b != 0) && ((a < 0) != (b < 0)) {
		q--
	}
	return q
}

func renderSeries(name string, tags map[string]string, rows []outRow) string {
	keys := make([]string, 0, len(tags))
	for k := range tags {
		keys = append(keys, k)
	}
	sort.Strings(keys)
	var tg []string
	for _, k := range keys {
		tg = append(tg, k+"="+tags[k])
	}
	var rs []string
	for _, r := range rows {
		if r.nul {
			rs = append(rs, fmt.Sprintf("%d:null", r.t))
		} else {
			rs = append(rs, fmt.Sprintf("%d:%s", r.t, fmtVal(r.v)))
		}
	}
	return fmt.Sprintf("%s{%s} %s", name, strings.Join(tg, ","), strings.Join(rs, " "))
}

// ---- real layouts ----

func buildData(nodes, rf, sgHours int) (*meta.Data, error) {
	d := &meta.Data{}
	for i := 1; i <= nodes; i++ {
		d.Index++
		if err := d.CreateDataNode(fmt.Sprintf("node%d:8086", i), clustersim.Addr(uint64(i))); err != nil {
			return nil, err
		}
	}
	if err := d.CreateDatabase(storesim.DB); err != nil {
		return nil, err
	}
	if err := d.CreateRetentionPolicy(storesim.DB, &meta.RetentionPolicyInfo{Name: storesim.RP, ReplicaN: rf, Duration: 0, ShardGroupDuration: time.Duration(sgHours) * time.Hour}, true); err != nil {
		return nil, err
	}
	for h := 0; h < 4; h += sgHours {
		d.Index++
		if err := d.CreateShardGroup(storesim.DB, storesim.RP, t0.Add(time.Duration(h)*time.Hour)); err != nil {
			return nil, err
		}
	}
	return d, nil
}

func mkPoint(q pt) models.Point {
	tags := map[string]string{}
	if q.A != "" {
		tags["a"] = q.A
	}
	if q.B != "" {
		tags["b"] = q.B
	}
	f := models.Fields{}
	if q.F != nil {
		f["f"] = *q.F
	}
	if q.I != nil {
		f["i"] = *q.I
	}
	if q.S != nil {
		f["s"] = *q.S
	}
	if q.Bo != nil {
		f["bo"] = *q.Bo
	}
	return models.MustNewPoint(q.M, models.NewTags(tags), f, t0.Add(time.Duration(q.T)*time.Second))
}

// run one layout: build, load with the layout's batches and storage steps, execute.
func runLayout(run *core.Run, name string, lay *layout, points []pt, stmt string, cluster bool) (string, error, bool) {
	data, err := buildData(lay.Nodes, lay.RF, lay.SGHours)
	if err != nil {
		run.Fail("harness-error", "", "%s: metadata: %v", name, err)
		return "", nil, false
	}
	root := filepath.Join(run.Scratch, name)
	var c *clustersim.Cluster
	if cluster {
		c, err = clustersim.New(root, data, lay.Index)
	} else {
		c, err = clustersim.NewOn(root, data, lay.Index, "")
	}
	if err != nil {
		run.Fail("harness-error", "", "%s: cluster: %v", name, err)
		return "", nil, false
	}
	defer c.Close()
	rp, _ := data.RetentionPolicy(storesim.DB, storesim.RP)
	i := 0
	for bi, n := range lay.Batches {
		for ; n > 0 && i < len(points); n, i = n-1, i+1 {
			mp := mkPoint(points[i])
			g := rp.ShardGroupByTimestamp(mp.Time())
			if g == nil {
				run.Fail("harness-error", "", "%s: no shard group for %v", name, mp.Time())
				return "", nil, false
			}
			sh := g.ShardFor(mp)
			for _, o := range sh.Owners {
				nd := c.Node(o.NodeID)
				if err := nd.Sim.Store.CreateShard(storesim.DB, storesim.RP, sh.ID, true); err != nil {
					run.Fail("harness-error", "", "%s: CreateShard: %v", name, err)
					return "", nil, false
				}
				if err := nd.Sim.Store.WriteToShard(sh.ID, []models.Point{mp}); err != nil {
					run.Fail("harness-error", "", "%s: WriteToShard: %v", name, err)
					return "", nil, false
				}
			}
		}
		op := lay.Ops[bi]
		for _, nd := range c.Nodes {
			ids := nd.Sim.Store.ShardIDs()
			sort.Slice(ids, func(a, b int) bool { return ids[a] < ids[b] })
			for k, id := range ids {
				// the step applies to a drawn subset of the shards
				if (op.Pick>>uint(k%3))&1 == 0 && len(ids) > 1 {
					continue
				}
				switch op.Kind {
				case "snapshot":
					if err := nd.Sim.Snapshot(id); err != nil {
						run.Logf("%s: snapshot of shard %d: %v", name, id, err)
					} else {
						run.Probe("layout-snapshot")
					}
				case "compact":
					nd.Sim.Snapshot(id)
					if n, err := nd.Sim.Compact(id, storesim.Full, op.Pick); err != nil {
						run.Logf("%s: compaction of shard %d: %v", name, id, err)
					} else if n > 0 {
						run.Probe("layout-compaction")
					}
				}
			}
		}
	}
	q, err := influxql.ParseQuery(stmt)
	if err != nil {
		run.Fail("harness-error", "", "parse %q: %v", stmt, err)
		return "", nil, false
	}
	closing := make(chan struct{})
	defer close(closing)
	ch := c.Node(uint64(lay.Coord)).QE.ExecuteQuery(q, query.ExecutionOptions{Database: storesim.DB, ReadOnly: true}, closing)
	var parts []string
	for r := range ch {
		if r.Err != nil {
			return "", r.Err, true
		}
		for _, row := range r.Series {
			var rows []outRow
			for _, v := range row.Values {
				tm, _ := v[0].(time.Time)
				or := outRow{t: tm.UnixNano()}
				if len(v) < 2 || v[1] == nil {
					or.nul = true
				} else {
					or.v = v[1]
				}
				rows = append(rows, or)
			}
			// a chunked series continues the previous row set
			txt := renderSeries(row.Name, row.Tags, rows)
			parts = append(parts, txt)
		}
	}
	return strings.Join(parts, "\n"), nil, true
}

func exec(run *core.Run, pl interface{}) {
	p := pl.(*plan)
	stmt := p.Stmt.text()
	run.Logf("statement: %s", stmt)
	data := logical(p.Points)
	refMaxTie = 0
	want := reference(data, &p.Stmt)
	maxTie := refMaxTie
	// (0) one node, one shard, cache only, one batch
	l0 := layout{Nodes: 1, RF: 1, Coord: 1, SGHours: 4, Index: "inmem", Batches: []int{len(p.Points)}, Ops: []storageOp{{Kind: "none"}}}
	got0, err0, ok := runLayout(run, "L0", &l0, p.Points, stmt, false)
	if !ok {
		return
	}
	gotA, errA, ok := runLayout(run, "LA", &p.A, p.Points, stmt, false)
	if !ok {
		return
	}
	gotB, errB, ok := runLayout(run, "LB", &p.B, p.Points, stmt, true)
	if !ok {
		return
	}
	desc := func(l *layout) string {
		return fmt.Sprintf("nodes=%d rf=%d coordinator=%d shard-group=%dh index=%s batches=%v steps=%v", l.Nodes, l.RF, l.Coord, l.SGHours, l.Index, l.Batches, l.Ops)
	}
	if (err0 != nil) != (errA != nil) || (err0 != nil) != (errB != nil) {
		run.Fail("statement-fails-in-one-layout-only", "", "%s\n single shard/cache: %v\n layout A (%s): %v\n layout B (%s): %v", stmt, err0, desc(&p.A), errA, desc(&p.B), errB)
		return
	}
	if err0 != nil {
		run.Probe("statement-rejected")
		run.Logf("rejected everywhere: %v", err0)
		return
	}
	run.Probe("statement-evaluated")
	if (gotA != got0 || gotB != got0) && (p.Stmt.SLimit > 0 || p.Stmt.SOffset > 0) {
		// SLIMIT/SOFFSET are applied by every shard to its own list of series
		// (tsm1 Engine.createVarRefIterator/createCallIterator: LimitTagSets),
		// not to the series of the result
		run.Fail("result-depends-on-layout", "slimit-applied-per-shard", "%s\n single shard, cache only:\n%s\n layout A (%s):\n%s\n layout B (%s):\n%s", stmt, got0, desc(&p.A), gotA, desc(&p.B), gotB)
		return
	}
	if (gotA != got0 || gotB != got0) && p.Ties && (p.Stmt.Fn == "first" || p.Stmt.Fn == "last") && p.Stmt.GTime == 0 && maxTie >= 3 {
		// first/last without GROUP BY time are answered inside a shard by a
		// field iterator limited to LIMIT+1 points per series merge (tsm1
		// Engine.CreateIterator's optimisation): of three or more points of
		// the chosen instant only the first two in series order reach the
		// reducer there, while across shards every shard contributes
		run.Fail("result-depends-on-layout", "first-last-among-three-or-more-points-of-equal-time", "%s (%d series hold a point at the chosen instant)\n single shard, cache only:\n%s\n layout A (%s):\n%s\n layout B (%s):\n%s", stmt, maxTie, got0, desc(&p.A), gotA, desc(&p.B), gotB)
		return
	}
	if gotA != got0 {
		run.Fail("result-depends-on-layout", "single-node", "%s\n single shard, cache only:\n%s\n layout A (%s):\n%s", stmt, got0, desc(&p.A), gotA)
		return
	}
	if gotB != got0 {
		run.Fail("result-depends-on-layout", "cluster", "%s\n single shard, cache only:\n%s\n layout B (%s):\n%s", stmt, got0, desc(&p.B), gotB)
		return
	}
	// With SLIMIT/SOFFSET the engine counts the series of the shard that match
	// the measurement and tag predicate whether or not they contribute a row
	// (see the recorded finding); the reference evaluation is not held against
	// those statements.
	tieChoice := p.Ties && (p.Stmt.Fn == "first" || p.Stmt.Fn == "last")
	if tieChoice {
		run.Probe("first-last-over-shared-timestamps")
	}
	if !tieChoice && !sameResult(got0, want, p.Stmt.Fill == "linear") && p.Stmt.SLimit == 0 && p.Stmt.SOffset == 0 {
		run.Fail("result-differs-from-reference-evaluation", refSite(&p.Stmt), "%s\n first differences (engine | reference):\n%s\n engine (all layouts agree):\n%s\n reference evaluation over the raw points:\n%s", stmt, firstDiffs(got0, want), clip(got0), clip(want))
		return
	}
	if want != "" {
		run.Probe("non-empty-result")
	}
	if p.Stmt.GTime > 0 {
		run.Probe("grouped-by-time")
	}
	if p.Stmt.Desc {
		run.Probe("descending")
	}
	run.NonTrivial = want != ""
	run.Digest = fmt.Sprintf("%s/%s/g%d/d%d", p.Stmt.Fn, p.Stmt.Field, p.Stmt.GTime, len(p.Stmt.Dims))
}

// firstDiffs lists the first few positions at which two rendered results differ.
func firstDiffs(a, b string) string {
	la, lb := strings.Split(a, "\n"), strings.Split(b, "\n")
	var out []string
	for i := 0; i < len(la) || i < len(lb); i++ {
		var x, y string
		if i < len(la) {
			x = la[i]
		}
		if i < len(lb) {
			y = lb[i]
		}
		if x == y {
			continue
		}
		fx, fy := strings.Fields(x), strings.Fields(y)
		n := 0
		for j := 0; (j < len(fx) || j < len(fy)) && n < 6; j++ {
			var u, v string
			if j < len(fx) {
				u = fx[j]
			}
			if j < len(fy) {
				v = fy[j]
			}
			if u != v {
				out = append(out, fmt.Sprintf("series %d row %d: %s | %s", i, j, u, v))
				n++
			}
		}
		out = append(out, fmt.Sprintf("series %d: %d | %d rows", i, len(fx)-1, len(fy)-1))
		if len(out) > 14 {
			break
		}
	}
	return strings.Join(out, "\n")
}

// sameResult compares two rendered results; values produced by linear
// interpolation may differ in the last bits (the order of the floating point
// operations is not part of the semantics).
func sameResult(a, b string, tolerant bool) bool {
	if a == b {
		return true
	}
	if !tolerant {
		return false
	}
	fa, fb := strings.Fields(a), strings.Fields(b)
	if len(fa) != len(fb) {
		return false
	}
	for i := range fa {
		if fa[i] == fb[i] {
			continue
		}
		ia, ib := strings.LastIndex(fa[i], ":"), strings.LastIndex(fb[i], ":")
		if ia < 0 || ib < 0 || fa[i][:ia] != fb[i][:ib] {
			return false
		}
		va, vb := fa[i][ia+1:], fb[i][ib+1:]
		if strings.HasPrefix(va, "~") || strings.HasPrefix(vb, "~") {
			// an interpolated integer: either neighbour of the exact value
			if strings.HasPrefix(va, "~") {
				va, vb = vb, va
			}
			n, en := strconv.ParseInt(va, 10, 64)
			e, ee := strconv.ParseFloat(vb[1:], 64)
			if en != nil || ee != nil || math.Abs(float64(n)-e) >= 1+1e-9*math.Abs(e) {
				return false
			}
			continue
		}
		x, ex := strconv.ParseFloat(va, 64)
		y, ey := strconv.ParseFloat(vb, 64)
		if ex != nil || ey != nil {
			return false
		}
		if math.Abs(x-y) > 1e-9*math.Max(1, math.Max(math.Abs(x), math.Abs(y))) {
			return false
		}
	}
	return true
}

func clip(s string) string {
	if len(s) > 1200 {
		return s[:1200] + "..."
	}
	return s
}

func refSite(s *spec) string {
	k := "raw"
	if s.Fn != "" {
		k = s.Fn
	}
	if s.GTime > 0 {
		k += "+time"
		if s.Fill != "" {
			k += "+fill(" + s.Fill + ")"
		}
	}
	return k
}

func describe(pl interface{}) interface{} {
	p := pl.(*plan)
	var pts []string
	for _, q := range p.Points {
		s := fmt.Sprintf("%s,a=%s,b=%s @%d", q.M, q.A, q.B, q.T)
		if q.F != nil {
			s += fmt.Sprintf(" f=%v", *q.F)
		}
		if q.I != nil {
			s += fmt.Sprintf(" i=%v", *q.I)
		}
		if q.S != nil {
			s += fmt.Sprintf(" s=%q", *q.S)
		}
		if q.Bo != nil {
			s += fmt.Sprintf(" bo=%v", *q.Bo)
		}
		pts = append(pts, s)
	}
	return map[string]interface{}{"statement": p.Stmt.text(), "points": pts, "layoutA": fmt.Sprintf("%+v", p.A), "layoutB": fmt.Sprintf("%+v", p.B)}
}

func TestC11(t *testing.T) {
	core.Main(t, core.Harness{
		Property:       "C11",
		Gen:            genPlan,
		Exec:           exec,
		Bubble:         true,
		Warmup:         func() { storesim.Warmup() },
		Describe:       describe,
		RequiredProbes: []string{"statement-evaluated", "non-empty-result", "grouped-by-time", "descending", "layout-snapshot", "layout-compaction"},
		Real:           []string{"query.Executor, coordinator.StatementExecutor, ClusterShardMapper, remote iterators over the simulated network", "query compile/select/iterators/functions/cursor/emitter", "tsdb.Store/Shard, tsm1 engine cursors and iterators, cache, TSM files, compaction"},
		Stub:           []string{"meta.Client over generated metadata", "hinted handoff"},
		Assumptions:    []string{"float values are multiples of 1/8 of small magnitude so that sums are exact in any order", "in three runs of four a timestamp belongs to one series per measurement (the order of raw rows of equal time from different series is unspecified); in the fourth, series share timestamps and only aggregates are asked"},
		Rule:           "a run = 1-28 points (2 measurements, tags a,b, fields f/i/s/bo, timestamps clustered around hour boundaries, overwrites), one statement (raw field or count/sum/mean/min/max/first/last/spread/median; optional time bounds, tag predicate, GROUP BY time(interval[,offset]) and tags, fill none/null/number/previous/linear, ORDER BY time DESC, LIMIT/OFFSET/SLIMIT/SOFFSET), evaluated by the reference evaluator and on three physical layouts; non-trivial = non-empty result",
	})
}
