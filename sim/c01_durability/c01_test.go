// C01 — acknowledged writes survive any crash and restart.
//
// A real tsdb.Store is driven one operation at a time; at hook events (each
// durable step of the storage engine) the directory tree is copied as a crash
// image and the loss model is applied to the copy (WAL tail cut anywhere
// between its fsynced and written length, optionally zero-filled). Every image
// is then opened by a fresh Store — "the process died there and restarted" —
// and compared with the model of acknowledged writes; recovered stores receive
// further acknowledged writes and further crash images (consecutive
// crash/restart cycles, crashes during recovery).
package c01

import (
	"errors"
	"fmt"
	"math"
	"os"
	"path/filepath"
	"sort"
	"strings"
	"sync"
	"testing"

	"github.com/influxdata/influxdb/pkg/verifhook"
	"pgregory.net/rapid"

	"verifsim/core"
	"verifsim/model"
	"verifsim/simdisk"
	"verifsim/storesim"
)

type op struct {
	Kind   string // write, bigwrite, snapshot, compact, compactfiles, delete, drop, reopen
	From   int    // compactfiles: first file of the adjacent run
	N      int    // compactfiles: files in the run
	Fast   bool   // compactfiles: fast (undecoded) strategy
	Points []model.Point
	CKind  storesim.CompactKind
	Pick   int
	Preds  []model.Tag // delete: tag predicates
	Meas   string
	Cond   string
	Min    int64
	Max    int64
	// failsnapshot: the batch written after each failing attempt; Then: a
	// successful snapshot follows
	Reps [][]model.Point
	Then bool
}

type plan struct {
	Index         string
	CompactorSize int
	ImageMode     int
	Phases        [][]op // phase 0 on a fresh store; phase d on images of phase d-1
	Tape          []uint64
	MaxImages     []int
	FaultFree     bool
}

func genOp(t *rapid.T, label string) op {
	switch k := rapid.IntRange(0, 24).Draw(t, label+".kind"); {
	case k >= 22:
		// an arbitrary adjacent run of the shard's files compacted with the
		// engine's own strategy: the planner's levels rarely offer a group in
		// a short history, so without this step almost no crash point falls
		// inside a compaction that replaces several files
		// (0-2 write+snapshot pairs first, so that there are files to compact)
		o := op{Kind: "compactfiles", From: rapid.IntRange(0, 3).Draw(t, label+".from"), N: rapid.IntRange(2, 4).Draw(t, label+".n"), Fast: rapid.Bool().Draw(t, label+".fast")}
		for j, n := 0, rapid.IntRange(0, 2).Draw(t, label+".layers"); j < n; j++ {
			o.Reps = append(o.Reps, storesim.GenBatch(t, 3, fmt.Sprintf("%s.l%d", label, j)))
		}
		return o
	case k >= 20:
		// a cache snapshot whose new file cannot be made durable (I/O error
		// at its fsync): it fails, the cache keeps what it held, and later
		// snapshots - failing again or not - must still cover it
		// (1-3 failing attempts, each followed by a further acknowledged
		// write, then possibly the attempt that succeeds)
		o := op{Kind: "failsnapshot", Then: rapid.Bool().Draw(t, label+".then")}
		for j, n := 0, rapid.IntRange(1, 3).Draw(t, label+".reps"); j < n; j++ {
			o.Reps = append(o.Reps, storesim.GenBatch(t, 3, fmt.Sprintf("%s.r%d", label, j)))
		}
		return o
	case k < 9:
		return op{Kind: "write", Points: storesim.GenBatch(t, 8, label)}
	case k < 10:
		return op{Kind: "bigwrite", Points: storesim.GenRun(t, label)}
	case k < 13:
		return op{Kind: "snapshot"}
	case k < 16:
		return op{Kind: "compact", CKind: storesim.CompactKind(rapid.IntRange(0, 4).Draw(t, label+".ck")), Pick: rapid.IntRange(0, 3).Draw(t, label+".pick")}
	case k < 18:
		// range delete by tag predicate (Store.DeleteSeries)
		m := storesim.Measurements[rapid.IntRange(0, 1).Draw(t, label+".m")]
		var preds []model.Tag
		if rapid.Bool().Draw(t, label+".pa") {
			preds = append(preds, model.Tag{K: "a", V: storesim.TagA[rapid.IntRange(1, 2).Draw(t, label+".av")]})
		}
		if rapid.IntRange(0, 2).Draw(t, label+".pb") == 0 {
			preds = append(preds, model.Tag{K: "b", V: storesim.TagB[rapid.IntRange(1, 2).Draw(t, label+".bv")]})
		}
		a := storesim.GenTime(t, label+".min")
		b := storesim.GenTime(t, label+".max")
		if a > b {
			a, b = b, a
		}
		if rapid.IntRange(0, 4).Draw(t, label+".open") == 0 {
			a, b = math.MinInt64, math.MaxInt64
		}
		return op{Kind: "delete", Meas: m, Preds: preds, Min: a, Max: b, Cond: tagCond(preds, a, b)}
	case k < 19:
		m := storesim.Measurements[rapid.IntRange(0, 1).Draw(t, label+".m")]
		return op{Kind: "dropmeas", Meas: m}
	default:
		return op{Kind: "reopen"}
	}
}

func tagCond(preds []model.Tag, min, max int64) string {
	var parts []string
	for _, t := range preds {
		parts = append(parts, fmt.Sprintf("%s = '%s'", t.K, t.V))
	}
	if tc := storesim.TimeCond(min, max); tc != "" {
		parts = append(parts, tc)
	}
	return strings.Join(parts, " AND ")
}

// matching returns the model's series of a measurement that satisfy every
// tag predicate, and whether every predicate key is a tag key the
// measurement has (otherwise the store treats it as a field and rejects the
// delete).
func matching(m *model.Shard, meas string, preds []model.Tag) (keys []string, keysKnown bool) {
	have := map[string]bool{}
	for k, s := range m.Series {
		if s.M != meas {
			continue
		}
		ok := true
		tv := map[string]string{}
		for _, t := range s.Tags {
			tv[t.K] = t.V
			have[t.K] = true
		}
		for _, p := range preds {
			if tv[p.K] != p.V {
				ok = false
			}
		}
		if ok {
			keys = append(keys, k)
		}
	}
	for k := range m.MaybeListed {
		if name, tags := storesim.ParseSeriesKey(k); name == meas {
			for _, t := range tags {
				have[t.K] = true
			}
		}
	}
	keysKnown = true
	for _, p := range preds {
		if !have[p.K] {
			keysKnown = false
		}
	}
	sort.Strings(keys)
	return keys, keysKnown
}

func keysOf(m *model.Shard, meas string) []string {
	var ks []string
	for k, s := range m.Series {
		if s.M == meas {
			ks = append(ks, k)
		}
	}
	sort.Strings(ks)
	return ks
}

func genPlan(t *rapid.T) interface{} {
	p := &plan{}
	p.Index = rapid.SampledFrom([]string{"inmem", "tsi1"}).Draw(t, "index")
	p.CompactorSize = rapid.SampledFrom([]int{0, 2, 3, 10, 100}).Draw(t, "compactor_size")
	depth := rapid.IntRange(1, 3).Draw(t, "depth")
	// where the crash images of a phase fall: 0 = at three events in four from
	// the phase's start (dense, early), 1 = about one event in eight, 2 = about
	// one in thirty-two (spread over the whole phase), 3 = dense, but only
	// inside snapshots, compactions, deletes and restarts
	p.ImageMode = rapid.IntRange(0, 3).Draw(t, "image_mode")
	for d := 0; d < depth; d++ {
		max := 14
		if d > 0 {
			max = 5
		}
		n := rapid.IntRange(1, max).Draw(t, fmt.Sprintf("phase%d.n", d))
		var ops []op
		for i := 0; i < n; i++ {
			ops = append(ops, genOp(t, fmt.Sprintf("p%d.op%d", d, i)))
		}
		p.Phases = append(p.Phases, ops)
		p.MaxImages = append(p.MaxImages, []int{10, 3, 2}[d])
	}
	p.Tape = storesim.GenTape(t, 400, "tape")
	return p
}

type image struct {
	dir      string
	acked    *model.Shard
	inflight *storesim.Inflight
	event    string
	cuts     []simdisk.Cut
}

type runner struct {
	run  *core.Run
	p    *plan
	tape *storesim.Tape
	nimg int
	mu   sync.Mutex
}

const shardID = 1

// phase opens the store at root (under the hook, so recovery steps are crash
// points too), verifies it against (acked, inflight) when it is a crash
// image, executes the ops of the phase while cutting images, closes the store
// and then descends into the images.
func (r *runner) phase(root string, depth int, acked *model.Shard, inflight *storesim.Inflight, label string) {
	run := r.run
	if run.Failed() {
		return
	}
	core.Progress()
	tracker := simdisk.NewTracker()
	tracker.AdoptTree(root)
	var images []*image
	budget := 0
	if depth < len(r.p.MaxImages) {
		budget = r.p.MaxImages[depth]
	}
	if r.p.FaultFree {
		budget = 0
	}
	var cur *storesim.Inflight
	var curOp string // kind of the operation in flight, for the reach probes
	var sim *storesim.Sim
	var m *model.Shard // acknowledged model during this phase
	evN := 0
	handler := func(ev string, args ...interface{}) {
		r.mu.Lock()
		defer r.mu.Unlock()
		tracker.Handle(ev, args...)
		evN++
		desc := ev
		if len(args) > 0 {
			if s, ok := args[0].(string); ok {
				if rel, err := filepath.Rel(root, s); err == nil {
					desc += " " + rel
				}
			}
			if len(args) > 1 {
				// a second path (rename target) is logged relative to the store as well
				if s, ok := args[1].(string); ok && filepath.IsAbs(s) {
					if rel, err := filepath.Rel(root, s); err == nil {
						desc += " " + rel
					}
				} else {
					desc += fmt.Sprint(" ", args[1])
				}
			}
		}
		run.Logf("%s ev%d %s", label, evN, desc)
		if budget <= 0 || m == nil && depth == 0 {
			return
		}
		// value 0 (what shrinking converges to) means "no image here"
		switch v := r.tape.Next(); r.p.ImageMode {
		case 1:
			if v%8 != 1 {
				return
			}
		case 2:
			if v%32 != 1 {
				return
			}
		case 3:
			if v%4 == 0 || m != nil && (cur == nil || cur.Kind == "write") {
				return
			}
		default:
			if v%4 == 0 {
				return
			}
		}
		budget--
		r.nimg++
		dir := filepath.Join(run.Scratch, fmt.Sprintf("img%d", r.nimg))
		cuts, err := tracker.CutImage(root, dir, r.tape.Choose)
		if err != nil {
			run.Fail("harness-error", "", "cutting image: %v", err)
			return
		}
		im := &image{dir: dir, event: fmt.Sprintf("%s ev%d %s", label, evN, desc), cuts: cuts}
		if m != nil {
			im.acked = m.Clone()
			im.inflight = cur
		} else {
			// crash during recovery of an image: same expectations as the image itself
			im.acked = acked.Clone()
			im.inflight = inflight
		}
		run.Fault("crash")
		for _, c := range cuts {
			if c.Kept < c.Written {
				run.Fault("torn-tail")
			}
			if c.ZeroFill > 0 {
				run.Fault("zero-fill")
			}
			run.Logf("%s   image%d cut %s", label, r.nimg, c)
		}
		if strings.HasPrefix(ev, "wal.recover") {
			run.Probe("crash-during-recovery")
		}
		if m != nil && curOp != "" {
			run.Probe("crash-inside-" + curOp)
			if fs, _ := filepath.Glob(filepath.Join(root, "data", "*", "*", "*", "*.tsm")); len(fs) >= 2 {
				run.Probe("crash-with-several-data-files")
			}
		}
		images = append(images, im)
	}
	verifhook.SetPoint(handler)
	defer verifhook.SetPoint(nil)

	var err error
	sim, err = storesim.Open(root, storesim.Opts{Index: r.p.Index, CompactorSize: r.p.CompactorSize})
	if err != nil {
		run.Fail("store-open-failed-after-crash", "", "%s: Store.Open: %v", label, err)
		return
	}
	closed := false
	defer func() {
		if !closed {
			sim.Close()
		}
	}()
	if depth == 0 {
		if err := sim.CreateShard(shardID); err != nil {
			run.Fail("harness-error", "", "CreateShard: %v", err)
			return
		}
		m = model.NewShard()
	} else {
		if sim.Store.Shard(shardID) == nil {
			run.Fail("shard-missing-after-crash", "", "%s: shard %d did not open after restart", label, shardID)
			return
		}
		// Verify the recovered store.
		obsI, err := sim.ReadIterators(shardID, storesim.FullRange, nil)
		if err != nil {
			run.Fail("read-error-after-crash", "", "%s: %v", label, err)
			return
		}
		if mm := storesim.CompareCrash(acked, inflight, obsI, "iterators"); mm != nil {
			run.Fail(mm.Class, "", "%s: %s", label, mm.Detail)
			return
		}
		var after *model.Shard
		if inflight != nil && inflight.Kind == "write" {
			after = acked.Clone()
			after.Write(inflight.Points)
		}
		obsC, err := sim.ReadCursors(shardID, storesim.FullRange, storesim.AllSeriesFields(acked, after))
		if err != nil {
			run.Fail("read-error-after-crash", "", "%s: %v", label, err)
			return
		}
		if mm := storesim.CompareCrash(acked, inflight, obsC, "cursors"); mm != nil {
			run.Fail(mm.Class, "", "%s: %s", label, mm.Detail)
			return
		}
		run.Probe("image-verified")
		// What survived is the new acknowledged state.
		m = storesim.FromObserved(obsC, acked)
		if mm := storesim.CompareExact(m, obsI, storesim.FullRange, "iterators-vs-cursors"); mm != nil {
			run.Fail("read-paths-disagree-after-crash", "", "%s: %s", label, mm.Detail)
			return
		}
	}

	var ops []op
	if depth < len(r.p.Phases) {
		ops = r.p.Phases[depth]
	}
	for i, o := range ops {
		if run.Failed() {
			break
		}
		core.Progress()
		run.Op(o.Kind)
		run.Logf("%s op%d %s", label, i, o.Kind)
		curOp = o.Kind
		switch o.Kind {
		case "write", "bigwrite":
			cur = &storesim.Inflight{Kind: "write", Points: o.Points}
			err := sim.Write(shardID, o.Points)
			cur = nil
			if err != nil {
				run.Fail("write-failed", "", "%s op%d: WriteToShard: %v", label, i, err)
				break
			}
			if rej := m.Write(o.Points); rej != 0 {
				run.Fail("harness-error", "", "model rejected %d points of a conflict-free batch", rej)
			}
		case "snapshot":
			cur = &storesim.Inflight{Kind: "other"}
			if err := sim.Snapshot(shardID); err != nil {
				run.Fail("snapshot-failed", "", "%s op%d: WriteSnapshot: %v", label, i, err)
			}
			cur = nil
		case "failsnapshot":
			for _, batch := range o.Reps {
				cur = &storesim.Inflight{Kind: "other"}
				fired := false
				verifhook.SetFault(func(ev string, args ...interface{}) error {
					if ev == "tsm.fsync" && !fired {
						fired = true
						return errors.New("injected: input/output error")
					}
					return nil
				})
				err := sim.Snapshot(shardID)
				verifhook.SetFault(nil)
				cur = nil
				if fired {
					run.Fault("eio-at-tsm-fsync")
					if err == nil {
						run.Fail("snapshot-reported-success-despite-fsync-error", "", "%s op%d: the new file's fsync failed, WriteSnapshot returned nil", label, i)
					} else {
						run.Probe("snapshot-failed-cache-kept")
					}
				} else if err != nil {
					run.Fail("snapshot-failed", "", "%s op%d: WriteSnapshot: %v", label, i, err)
				}
				if run.Failed() {
					break
				}
				cur = &storesim.Inflight{Kind: "write", Points: batch}
				err = sim.Write(shardID, batch)
				cur = nil
				if err != nil {
					run.Fail("write-failed", "", "%s op%d: WriteToShard after a failed snapshot: %v", label, i, err)
					break
				}
				m.Write(batch)
			}
			if o.Then && !run.Failed() {
				cur = &storesim.Inflight{Kind: "other"}
				if err := sim.Snapshot(shardID); err != nil {
					run.Fail("snapshot-failed", "", "%s op%d: WriteSnapshot after failed attempts: %v", label, i, err)
				} else {
					run.Probe("snapshot-succeeded-after-failed-attempts")
				}
				cur = nil
			}
		case "compact":
			cur = &storesim.Inflight{Kind: "other"}
			n, err := sim.Compact(shardID, o.CKind, o.Pick)
			cur = nil
			if err != nil {
				run.Fail("harness-error", "", "compact: %v", err)
			}
			if n > 0 {
				run.Probe("compaction-" + o.CKind.String())
			}
		case "compactfiles":
			for _, batch := range o.Reps {
				cur = &storesim.Inflight{Kind: "write", Points: batch}
				err := sim.Write(shardID, batch)
				cur = nil
				if err != nil {
					run.Fail("write-failed", "", "%s op%d: WriteToShard: %v", label, i, err)
					break
				}
				m.Write(batch)
				cur = &storesim.Inflight{Kind: "other"}
				err = sim.Snapshot(shardID)
				cur = nil
				if err != nil {
					run.Fail("snapshot-failed", "", "%s op%d: WriteSnapshot: %v", label, i, err)
					break
				}
			}
			if run.Failed() {
				break
			}
			cur = &storesim.Inflight{Kind: "other"}
			n, err := sim.CompactFiles(shardID, o.From, o.N, o.Fast)
			cur = nil
			if err != nil {
				run.Fail("harness-error", "", "compactfiles: %v", err)
			}
			if n > 0 {
				run.Probe("compaction-arbitrary-group")
			}
		case "delete":
			keys, known := matching(m, o.Meas, o.Preds)
			cur = &storesim.Inflight{Kind: "delete", Keys: keys, Min: o.Min, Max: o.Max}
			err := sim.DeleteWhere([]string{o.Meas}, o.Cond)
			cur = nil
			if err != nil {
				if !known && strings.Contains(err.Error(), "fields not supported in WHERE clause") {
					run.Probe("delete-rejected-unknown-tag")
					break // rejected before anything was deleted
				}
				run.Fail("delete-failed", "", "%s op%d: DeleteSeries(%s where %s): %v (model series of the measurement: %v)", label, i, o.Meas, o.Cond, err, keysOf(m, o.Meas))
				break
			}
			m.DeleteRange(keys, o.Min, o.Max)
		case "dropmeas":
			var keys []string
			for k, s := range m.Series {
				if s.M == o.Meas {
					keys = append(keys, k)
				}
			}
			cur = &storesim.Inflight{Kind: "delete", Keys: keys, Min: -1 << 63, Max: 1<<63 - 1}
			err := sim.DropMeasurement(o.Meas)
			cur = nil
			if err != nil {
				run.Fail("delete-failed", "", "%s op%d: DeleteMeasurement(%s): %v", label, i, o.Meas, err)
				break
			}
			m.DropMeasurement(o.Meas)
		case "reopen":
			cur = &storesim.Inflight{Kind: "other"}
			if err := sim.Close(); err != nil {
				run.Fail("close-failed", "", "%s op%d: Close: %v", label, i, err)
				break
			}
			sim2, err := storesim.Open(root, sim.Opts)
			if err != nil {
				closed = true
				run.Fail("store-open-failed", "", "%s op%d: reopen: %v", label, i, err)
				break
			}
			sim = sim2
			cur = nil
			if sim.Store.Shard(shardID) == nil {
				run.Fail("shard-missing-after-reopen", "", "%s op%d: shard did not open after clean restart", label, i)
			}
		}
	}
	// Clean-close check: the live store must equal the model (guards the
	// harness and gives the fault-free configuration its oracle).
	if !run.Failed() && sim.Store.Shard(shardID) != nil {
		obs, err := sim.ReadIterators(shardID, storesim.FullRange, nil)
		if err != nil {
			run.Fail("read-error", "", "%s: %v", label, err)
		} else if mm := storesim.CompareExact(m, obs, storesim.FullRange, "iterators"); mm != nil {
			run.Fail(mm.Class, "", "%s (live store): %s", label, mm.Detail)
		}
	}
	budget = 0 // no images of the shutdown itself: a clean close is not a crash point of interest here
	verifhook.SetPoint(nil)
	closed = true
	if err := sim.Close(); err != nil && !run.Failed() {
		run.Fail("close-failed", "", "%s: Close: %v", label, err)
	}
	run.Digest = m.Digest()
	for i, im := range images {
		if run.Failed() {
			break
		}
		run.NonTrivial = true
		r.phase(im.dir, depth+1, im.acked, im.inflight, fmt.Sprintf("%s>img[%s]", label, im.event))
		_ = i
		os.RemoveAll(im.dir)
	}
}

func exec(run *core.Run, pl interface{}) {
	p := pl.(*plan)
	r := &runner{run: run, p: p, tape: &storesim.Tape{V: p.Tape}}
	root := filepath.Join(run.Scratch, "store")
	os.MkdirAll(root, 0o777)
	r.phase(root, 0, nil, nil, "d0")
}

func describe(pl interface{}) interface{} {
	p := pl.(*plan)
	var phases [][]string
	for _, ph := range p.Phases {
		var ops []string
		for _, o := range ph {
			switch o.Kind {
			case "write", "bigwrite":
				s := fmt.Sprintf("%s(%d points", o.Kind, len(o.Points))
				for i, pt := range o.Points {
					if i == 4 {
						s += " …"
						break
					}
					fs := fmt.Sprint(pt.Fields)
					if len(fs) > 80 {
						fs = fs[:80] + "…"
					}
					s += fmt.Sprintf(" %s@%d%s", model.SeriesKey(pt.M, pt.Tags), pt.T, fs)
				}
				ops = append(ops, s+")")
			case "compact":
				ops = append(ops, fmt.Sprintf("compact(%s,%d)", o.CKind, o.Pick))
			case "compactfiles":
				ops = append(ops, fmt.Sprintf("compactfiles(%d,%d,fast=%v)", o.From, o.N, o.Fast))
			case "delete":
				ops = append(ops, fmt.Sprintf("delete(%s where %q)", o.Meas, o.Cond))
			case "dropmeas":
				ops = append(ops, "dropmeas("+o.Meas+")")
			default:
				ops = append(ops, o.Kind)
			}
		}
		phases = append(phases, ops)
	}
	return map[string]interface{}{"index": p.Index, "compactor_size": p.CompactorSize, "image_mode": p.ImageMode, "phases": phases, "tape_prefix": p.Tape[:16]}
}

func warmup() {
	dir, _ := os.MkdirTemp(core.ScratchRoot(), "warm")
	defer os.RemoveAll(dir)
	for _, idx := range []string{"inmem", "tsi1"} {
		root := filepath.Join(dir, idx)
		sim, err := storesim.Open(root, storesim.Opts{Index: idx})
		if err != nil {
			panic(err)
		}
		sim.CreateShard(1)
		sim.Write(1, []model.Point{{M: "m0", T: 1, Fields: []model.FieldValue{{Name: "f", V: model.Value{K: model.Float, F: 1}}}}})
		sim.Snapshot(1)
		sim.ReadIterators(1, storesim.FullRange, nil)
		sim.Close()
	}
}

func TestC01(t *testing.T) {
	core.Main(t, core.Harness{
		Property:       "C01",
		Gen:            genPlan,
		Exec:           exec,
		Bubble:         true,
		Warmup:         warmup,
		Describe:       describe,
		Tier:           "A",
		RequiredProbes: []string{"image-verified", "crash-during-recovery", "snapshot-failed-cache-kept", "snapshot-succeeded-after-failed-attempts", "crash-inside-compactfiles", "crash-inside-delete", "crash-inside-snapshot", "crash-with-several-data-files"},
		Real:           []string{"tsdb.Store", "tsdb.Shard", "tsm1.Engine", "tsm1.WAL", "tsm1.Cache", "tsm1.Compactor", "tsm1.FileStore", "tsm1.Tombstoner", "tsdb.SeriesFile", "index inmem/tsi1", "real files on tmpfs"},
		Stub:           []string{"none (durability is the SimDisk loss model)"},
		Assumptions: []string{
			"fsync and SyncDir are trusted; bytes written but not fsynced are what a crash may take (WAL tail cut anywhere between synced and written length, optionally zero-filled)",
			"directory operations are durable in program order (ordered-metadata model); arbitrary reordering of un-synced directory operations is not modelled",
			"index and series files are copied as written (treated as durable)",
		},
		Rule: "a run = seeded history of writes/snapshots/compactions (planner levels, full, optimize, and arbitrary runs of whole generations preceded by write+snapshot layers)/deletes/reopens on a real store, crash images placed by one of four seeded modes (dense from the start, one event in eight, one in thirty-two, dense inside background operations only), incl. cache snapshots that fail 1-3 times at the new file's fsync with further writes in between before one succeeds, with crash images cut at seeded hook events; non-trivial = at least one crash image was opened and verified; distinct = distinct (op-kind multiset, fault kinds fired, probes hit, final model digest)",
	})
}
