// Package c16_auth decides C16: with authentication enabled a query or write
// runs only with valid credentials of an existing user whose grants cover
// what the request needs; admin-only statements run only for administrators;
// before any user exists only the first administrator can be created; and a
// password change, revocation or user removal that has reached the node stops
// the old password or privilege from working there, also through the node's
// credential cache.
//
// One run (inside a simulated-clock bubble): the real httpd.Handler with
// authentication enabled, the real meta.QueryAuthorizer / WriteAuthorizer and
// a real meta.Client that follows the cluster's metadata through its real
// polling loop over the simulated network (the meta server is a stub that
// serves the authoritative meta.Data with long polling, with plan-decided
// delay). The plan is a history of user, grant, password and admin changes
// interleaved with HTTP requests (queries of many statement kinds, alone or in
// multi-statement requests, explicit or default database; writes) carrying
// credentials in one of three ways, plus windows in which a change lands
// between the verification of a password and its entry into the credential
// cache. Statements are "executed" by a recording executor behind the real
// query.Executor. The oracle is a reference model of users and grants and an
// own table of what each statement kind needs.
package c16_auth

import (
	"bytes"
	"encoding/base64"
	"io"
	"fmt"
	"net"
	"net/http"
	"net/http/httptest"
	"net/url"
	"path/filepath"
	"sort"
	"strconv"
	"strings"
	"sync"
	"testing"
	"time"

	jwt "github.com/dgrijalva/jwt-go/v4"
	"github.com/influxdata/influxdb/models"
	"github.com/influxdata/influxdb/pkg/verifhook"
	"github.com/influxdata/influxdb/query"
	"github.com/influxdata/influxdb/services/httpd"
	"github.com/influxdata/influxdb/services/meta"
	"github.com/influxdata/influxql"
	"github.com/hashicorp/raft"
	"golang.org/x/crypto/bcrypt"
	"pgregory.net/rapid"

	"verifsim/core"
	"verifsim/metacmd"
	"verifsim/simnet"
)

const secret = "shared-secret-of-the-run"

var dbs = []string{"db0", "db1"}
var userNames = []string{"u0", "u1", "u2"}
var passwords = []string{"pw-a", "pw-b", "pw-c"}

type op struct {
	Kind   string // mkuser, dropuser, passwd, grant, revoke, admin, query, write, race
	User   int
	Pass   int
	Admin  bool
	DB     int
	Priv   int // 0 none(revoke) 1 read 2 write 3 all
	Stmts  []int
	DefDB  int // -1 none
	Cred   int // 0 basic, 1 query params, 2 bearer, 3 none, 4 bearer expired, 5 bearer wrong secret
	CUser  int // credential user
	CPass  int // credential password
	Settle bool
	// Via: the change is issued through the node's real meta.Client method
	// (SetPrivilege, SetAdminPrivilege, UpdateUser, DropUser - what the
	// statement executor calls for GRANT / REVOKE / SET PASSWORD / DROP USER),
	// travels to the metadata server's execute endpoint and is applied there
	// by the real state machine; otherwise the harness edits the
	// authoritative metadata itself.
	Via bool
}

type plan struct {
	Ops     []op
	Latency int // ms delay of the metadata poll
}

// statement table: text, required privilege ("read"/"write" on a database,
// "admin", "none"), and the databases it needs it on. $DB is replaced by the
// explicit database of the op; statements without $DB use the default.
type stmtKind struct {
	text  string
	needs func(db, def string) []need
	// atLeast: the table only states a lower bound (the documentation and the
	// implementation disagree on more); a user meeting it may be let in or not.
	atLeast bool
}

type need struct {
	admin bool
	db    string
	write bool
}

func read(db string) need  { return need{db: db} }
func write(db string) need { return need{db: db, write: true} }

var adminOnly = func(db, def string) []need { return []need{{admin: true}} }

var stmtKinds = []stmtKind{
	{text: `SELECT f FROM m`, needs: func(db, def string) []need { return []need{read(def)} }},
	{text: `SELECT f FROM "$DB"..m`, needs: func(db, def string) []need { return []need{read(db)} }},
	{text: `SELECT count(f) FROM "$DB"..m WHERE time > 0 GROUP BY a`, needs: func(db, def string) []need { return []need{read(db)} }},
	{text: `SELECT f INTO "$DB"..copy FROM m`, needs: func(db, def string) []need { return []need{read(def), write(db)} }},
	{text: `SELECT f INTO copy FROM m`, needs: func(db, def string) []need { return []need{read(def), write(def)} }},
	{text: `SELECT f INTO copy FROM "$DB"..m`, needs: func(db, def string) []need { return []need{read(db), write(def)} }},
	{text: `SHOW MEASUREMENTS ON "$DB"`, needs: func(db, def string) []need { return []need{read(db)} }},
	{text: `SHOW SERIES ON "$DB"`, needs: func(db, def string) []need { return []need{read(db)} }},
	{text: `SHOW TAG KEYS ON "$DB"`, needs: func(db, def string) []need { return []need{read(db)} }},
	{text: `SHOW FIELD KEYS ON "$DB"`, needs: func(db, def string) []need { return []need{read(db)} }},
	{text: `SHOW TAG VALUES ON "$DB" WITH KEY = a`, needs: func(db, def string) []need { return []need{read(db)} }},
	{text: `SHOW MEASUREMENTS`, needs: func(db, def string) []need { return []need{read(def)} }},
	{text: `SHOW DATABASES`, needs: func(db, def string) []need { return nil }},
	{text: `CREATE DATABASE newdb`, needs: adminOnly},
	{text: `DROP DATABASE "$DB"`, needs: adminOnly},
	{text: `CREATE USER newuser WITH PASSWORD 'x'`, needs: adminOnly},
	{text: `CREATE USER newadmin WITH PASSWORD 'x' WITH ALL PRIVILEGES`, needs: adminOnly},
	{text: `DROP USER u1`, needs: adminOnly},
	{text: `GRANT ALL ON "$DB" TO u1`, needs: adminOnly},
	{text: `GRANT ALL PRIVILEGES TO u1`, needs: adminOnly},
	{text: `REVOKE ALL ON "$DB" FROM u0`, needs: adminOnly},
	{text: `SET PASSWORD FOR u0 = 'hijack'`, needs: adminOnly},
	{text: `SHOW USERS`, needs: adminOnly},
	{text: `SHOW GRANTS FOR u0`, needs: adminOnly},
	{text: `CREATE RETENTION POLICY rpx ON "$DB" DURATION 1h REPLICATION 1`, needs: adminOnly},
	{text: `ALTER RETENTION POLICY rp0 ON "$DB" DURATION 2h`, needs: adminOnly},
	// the documentation lists it with the administrator's statements, the
	// query language asks for WRITE on the database: held to the lower bound
	{text: `DROP RETENTION POLICY rp0 ON "$DB"`, needs: func(db, def string) []need { return []need{write(db)} }, atLeast: true},
	{text: `DROP MEASUREMENT m`, needs: adminOnly},
	{text: `SHOW SHARDS`, needs: adminOnly},
	{text: `KILL QUERY 1`, needs: adminOnly},
	{text: `DROP SERIES FROM m`, needs: func(db, def string) []need { return []need{write(def)} }, atLeast: true},
	{text: `DELETE FROM m WHERE time < 10`, needs: func(db, def string) []need { return []need{write(def)} }, atLeast: true},
}

func genPlan(t *rapid.T) interface{} {
	p := &plan{Latency: rapid.SampledFrom([]int{0, 0, 20, 500}).Draw(t, "latency")}
	n := rapid.IntRange(2, 24).Draw(t, "nops")
	for i := 0; i < n; i++ {
		l := fmt.Sprintf("op%d", i)
		o := op{
			User:   rapid.IntRange(0, len(userNames)-1).Draw(t, l+".user"),
			Pass:   rapid.IntRange(0, len(passwords)-1).Draw(t, l+".pass"),
			DB:     rapid.IntRange(0, len(dbs)-1).Draw(t, l+".db"),
			DefDB:  rapid.IntRange(-1, len(dbs)-1).Draw(t, l+".defdb"),
			Cred:   rapid.SampledFrom([]int{0, 0, 0, 1, 1, 2, 3, 4, 5}).Draw(t, l+".cred"),
			CUser:  rapid.IntRange(0, len(userNames)-1).Draw(t, l+".cuser"),
			CPass:  rapid.SampledFrom([]int{0, 1, 2, 3, 3, 3, 3}).Draw(t, l+".cpass"), // 3 = the user's current password
			Settle: rapid.IntRange(0, 3).Draw(t, l+".settle") > 0,
			Via:    rapid.IntRange(0, 2).Draw(t, l+".via") == 0,
		}
		k := rapid.IntRange(0, 19).Draw(t, l+".kind")
		if i < 3 && rapid.IntRange(0, 3).Draw(t, l+".boot") > 0 {
			// most histories start by creating users, the first one an administrator
			k = 0
			o.User = i
			o.Settle = true
		}
		switch {
		case k < 2:
			o.Kind = "mkuser"
			o.Admin = rapid.IntRange(0, 2).Draw(t, l+".admin") == 0 || i == 0
		case k < 3:
			o.Kind = "dropuser"
		case k < 5:
			o.Kind = "passwd"
		case k < 8:
			o.Kind = "grant"
			o.Priv = rapid.IntRange(0, 3).Draw(t, l+".priv")
		case k < 9:
			if rapid.Bool().Draw(t, l+".adm") {
				o.Kind = "admin"
				o.Admin = rapid.Bool().Draw(t, l+".admin")
			} else {
				o.Kind = "race"
			}
		case k < 12:
			o.Kind = "write"
		default:
			o.Kind = "query"
			ns := rapid.SampledFrom([]int{1, 1, 1, 2, 3}).Draw(t, l+".nstmts")
			for j := 0; j < ns; j++ {
				o.Stmts = append(o.Stmts, rapid.IntRange(0, len(stmtKinds)-1).Draw(t, fmt.Sprintf("%s.s%d", l, j)))
			}
		}
		p.Ops = append(p.Ops, o)
	}
	return p
}

// ---- reference model ----

type muser struct {
	pass  string
	admin bool
	privs map[string]int // db -> 1 read, 2 write, 3 all
}

type model struct {
	users map[string]*muser
}

func (m *model) adminExists() bool {
	for _, u := range m.users {
		if u.admin {
			return true
		}
	}
	return false
}

func (u *muser) satisfies(n need) bool {
	if u.admin {
		return true
	}
	if n.admin {
		return false
	}
	p := u.privs[n.db]
	if n.write {
		return p == 2 || p == 3
	}
	return p == 1 || p == 3
}

// ---- stub meta server: serves the authoritative data with long polling ----

type metaServer struct {
	mu      sync.Mutex
	cond    *sync.Cond
	data    *meta.Data
	latency time.Duration
	executed int // commands applied through the execute endpoint
}

func (s *metaServer) ServeHTTP(w http.ResponseWriter, r *http.Request) {
	if r.Method == "POST" && strings.HasSuffix(r.URL.Path, "/execute") {
		s.execute(w, r)
		return
	}
	idx, _ := strconv.ParseUint(r.URL.Query().Get("index"), 10, 64)
	s.mu.Lock()
	for s.data.Index <= idx {
		s.cond.Wait()
	}
	d := s.data.Clone()
	lat := s.latency
	s.mu.Unlock()
	if lat > 0 {
		time.Sleep(lat)
	}
	b, err := d.MarshalBinary()
	if err != nil {
		http.Error(w, err.Error(), 500)
		return
	}
	w.Write(b)
}

// execute applies a command sent by a meta client with the real state
// machine: a fresh one is restored from the authoritative metadata, applies
// the command as log entry Index+1, and its result becomes the authoritative
// metadata. The answer is the protobuf Response{OK, Error, Index}.
func (s *metaServer) execute(w http.ResponseWriter, r *http.Request) {
	body, err := io.ReadAll(r.Body)
	if err != nil {
		http.Error(w, err.Error(), 400)
		return
	}
	s.mu.Lock()
	defer s.mu.Unlock()
	b, err := s.data.MarshalBinary()
	if err != nil {
		http.Error(w, err.Error(), 500)
		return
	}
	fsm := meta.VerifNewFSM(meta.NewConfig())
	if err := fsm.Restore(io.NopCloser(bytes.NewReader(b))); err != nil {
		http.Error(w, err.Error(), 500)
		return
	}
	res := fsm.Apply(&raft.Log{Index: s.data.Index + 1, Term: 1, Type: raft.LogCommand, Data: body})
	out := new(metacmd.Buf)
	if e, ok := res.(error); ok && e != nil {
		out.Bool(1, false).Str(2, e.Error()).Uint(3, s.data.Index)
	} else {
		s.data = fsm.Data().Clone()
		s.executed++
		s.cond.Broadcast()
		out.Bool(1, true).Uint(3, s.data.Index)
	}
	w.Write(out.B)
}

func (s *metaServer) apply(f func(d *meta.Data) error) (uint64, error) {
	s.mu.Lock()
	defer s.mu.Unlock()
	next := s.data.Clone()
	if err := f(next); err != nil {
		return 0, err
	}
	next.Index++
	s.data = next
	s.cond.Broadcast()
	return next.Index, nil
}

// ---- recording executor ----

type recorder struct {
	mu       sync.Mutex
	executed []string
	writes   []string
}

func (r *recorder) ExecuteStatement(ctx *query.ExecutionContext, stmt influxql.Statement) error {
	r.mu.Lock()
	r.executed = append(r.executed, stmt.String())
	r.mu.Unlock()
	return ctx.Send(&query.Result{})
}

func (r *recorder) WritePoints(database, retentionPolicy string, consistencyLevel models.ConsistencyLevel, user meta.User, points []models.Point) error {
	r.mu.Lock()
	r.writes = append(r.writes, database)
	r.mu.Unlock()
	return nil
}

func (r *recorder) take() (stmts, writes []string) {
	r.mu.Lock()
	defer r.mu.Unlock()
	stmts, writes = r.executed, r.writes
	r.executed, r.writes = nil, nil
	return
}

func hash(pw string) string {
	b, _ := bcrypt.GenerateFromPassword([]byte(pw), bcrypt.MinCost)
	return string(b)
}

func token(user string, exp time.Time, key string) string {
	tk := jwt.NewWithClaims(jwt.SigningMethodHS256, jwt.MapClaims{"username": user, "exp": exp.Unix()})
	s, _ := tk.SignedString([]byte(key))
	return s
}

func exec(run *core.Run, pl interface{}) {
	p := pl.(*plan)
	nw := simnet.New()
	verifhook.SetDial(nw.DialHook())
	// the client's poller may be between two attempts when it is closed: the
	// hook stays until it has had the time to notice
	defer func() {
		time.Sleep(5 * time.Second)
		verifhook.SetDial(nil)
	}()
	// authoritative metadata
	d := &meta.Data{}
	for _, db := range dbs {
		if err := d.CreateDatabase(db); err != nil {
			run.Fail("harness-error", "", "CreateDatabase: %v", err)
			return
		}
		if err := d.CreateRetentionPolicy(db, &meta.RetentionPolicyInfo{Name: "rp0", ReplicaN: 1, Duration: 0, ShardGroupDuration: time.Hour}, true); err != nil {
			run.Fail("harness-error", "", "CreateRetentionPolicy: %v", err)
			return
		}
	}
	if err := d.CreateMetaNode("meta1:8091", "meta1:8089"); err != nil {
		run.Fail("harness-error", "", "CreateMetaNode: %v", err)
		return
	}
	d.Index = 5
	ms := &metaServer{data: d, latency: time.Duration(p.Latency) * time.Millisecond}
	ms.cond = sync.NewCond(&ms.mu)
	ln, err := nw.Listen("meta1:8091")
	if err != nil {
		run.Fail("harness-error", "", "listen: %v", err)
		return
	}
	srv := &http.Server{Handler: ms}
	go srv.Serve(ln)
	defer srv.Close()

	old := meta.VerifSetBcryptCost(bcrypt.MinCost)
	defer meta.VerifSetBcryptCost(old)
	mc := meta.NewConfig()
	mc.Dir = filepath.Join(run.Scratch, "meta")
	client := meta.NewClient(mc)
	client.SetMetaServers([]string{"meta1:8091"})
	if err := client.Open(); err != nil {
		run.Fail("harness-error", "", "meta client open: %v", err)
		return
	}
	defer client.Close()

	rec := &recorder{}
	cfg := httpd.NewConfig()
	cfg.AuthEnabled = true
	cfg.SharedSecret = secret
	cfg.LogEnabled = false
	h := httpd.NewHandler(cfg)
	h.MetaClient = client
	h.QueryAuthorizer = meta.NewQueryAuthorizer(client)
	h.WriteAuthorizer = meta.NewWriteAuthorizer(client)
	qe := query.NewExecutor()
	qe.StatementExecutor = rec
	h.QueryExecutor = qe
	h.PointsWriter = rec
	defer qe.Close()

	m := &model{users: map[string]*muser{}}
	// settle waits until a change has reached the node
	settle := func(idx uint64) bool {
		deadline := time.Now().Add(time.Minute)
		for time.Now().Before(deadline) {
			if client.Data().Index >= idx {
				return true
			}
			time.Sleep(50 * time.Millisecond)
		}
		run.Fail("metadata-never-reached-node", "", "metadata index %d did not reach the node's client within a simulated minute (client at %d)", idx, client.Data().Index)
		return false
	}
	// pendingUsers: users with a change not yet known to have reached the
	// node; requests touching them are not judged until it has.
	pending := map[string]uint64{}
	var lastIdx uint64
	change := func(o *op, name string, f func(d *meta.Data) error, apply func()) {
		idx, err := ms.apply(f)
		if err != nil {
			run.Logf("%s %s: refused by the metadata: %v", o.Kind, name, err)
			return
		}
		apply()
		lastIdx = idx
		if o.Settle {
			if !settle(idx) {
				return
			}
			for k := range pending {
				delete(pending, k)
			}
		} else {
			pending[name] = idx
		}
		run.Probe("change-" + o.Kind)
	}
	// changeVia issues the change through the node's own meta client: the
	// real client method, the execute endpoint, the real state machine, and
	// the client's wait for the change to come back with the next snapshot.
	changeVia := func(o *op, name string, call func() error, apply func()) {
		done := make(chan error, 1)
		go func() { done <- call() }()
		var err error
		select {
		case err = <-done:
		case <-time.After(2 * time.Minute):
			run.Fail("metadata-command-never-returned", "", "%s %s through the meta client did not return within two simulated minutes", o.Kind, name)
			return
		}
		if err != nil {
			run.Logf("%s %s through the meta client: refused: %v", o.Kind, name, err)
			return
		}
		apply()
		ms.mu.Lock()
		idx := ms.data.Index
		ms.mu.Unlock()
		lastIdx = idx
		if !settle(idx) {
			return
		}
		for k := range pending {
			delete(pending, k)
		}
		run.Probe("change-" + o.Kind)
		run.Probe("change-through-meta-client")
	}
	reached := func(name string) bool {
		idx, ok := pending[name]
		if !ok {
			return true
		}
		if client.Data().Index >= idx {
			delete(pending, name)
			return true
		}
		return false
	}
	anyPending := func() bool {
		for k := range pending {
			if !reached(k) {
				return true
			}
		}
		return false
	}

	request := func(o *op, method, path string, form url.Values, body string) (int, string) {
		cu, cp := userNames[o.CUser], passwords[o.CPass%len(passwords)]
		if o.CPass == len(passwords) {
			if u := m.users[cu]; u != nil {
				cp = u.pass
			}
		}
		req := httptest.NewRequest(method, path+"?"+form.Encode(), strings.NewReader(body))
		switch o.Cred {
		case 0:
			req.Header.Set("Authorization", "Basic "+base64.StdEncoding.EncodeToString([]byte(cu+":"+cp)))
		case 1:
			q := req.URL.Query()
			q.Set("u", cu)
			q.Set("p", cp)
			req.URL.RawQuery = q.Encode()
		case 2:
			req.Header.Set("Authorization", "Bearer "+token(cu, time.Now().Add(time.Hour), secret))
		case 4:
			req.Header.Set("Authorization", "Bearer "+token(cu, time.Now().Add(-time.Hour), secret))
		case 5:
			req.Header.Set("Authorization", "Bearer "+token(cu, time.Now().Add(time.Hour), "not-the-secret"))
		}
		w := httptest.NewRecorder()
		h.ServeHTTP(w, req)
		return w.Code, w.Body.String()
	}
	// authenticated: does the model accept the credentials of the op?
	authenticated := func(o *op) (*muser, bool) {
		u := m.users[userNames[o.CUser]]
		switch o.Cred {
		case 0, 1:
			if u == nil || (o.CPass < len(passwords) && u.pass != passwords[o.CPass]) {
				return nil, false
			}
			return u, true
		case 2:
			if u == nil {
				return nil, false
			}
			return u, true
		}
		return nil, false
	}

	for i := range p.Ops {
		o := &p.Ops[i]
		if run.Failed() {
			return
		}
		core.Progress()
		run.Op(o.Kind)
		name := userNames[o.User]
		switch o.Kind {
		case "mkuser":
			pw := passwords[o.Pass]
			change(o, name, func(d *meta.Data) error { return d.CreateUser(name, hash(pw), o.Admin) }, func() {
				m.users[name] = &muser{pass: pw, admin: o.Admin, privs: map[string]int{}}
			})
		case "dropuser":
			if o.Via {
				changeVia(o, name, func() error { return client.DropUser(name) }, func() { delete(m.users, name) })
				break
			}
			change(o, name, func(d *meta.Data) error { return d.DropUser(name) }, func() { delete(m.users, name) })
		case "passwd":
			pw := passwords[o.Pass]
			if o.Via {
				changeVia(o, name, func() error { return client.UpdateUser(name, pw) }, func() { m.users[name].pass = pw })
				break
			}
			change(o, name, func(d *meta.Data) error { return d.UpdateUser(name, hash(pw)) }, func() { m.users[name].pass = pw })
		case "grant":
			db := dbs[o.DB]
			priv := []influxql.Privilege{influxql.NoPrivileges, influxql.ReadPrivilege, influxql.WritePrivilege, influxql.AllPrivileges}[o.Priv]
			if o.Via {
				changeVia(o, name, func() error { return client.SetPrivilege(name, db, priv) }, func() { m.users[name].privs[db] = o.Priv })
				break
			}
			change(o, name, func(d *meta.Data) error { return d.SetPrivilege(name, db, priv) }, func() { m.users[name].privs[db] = o.Priv })
		case "admin":
			change(o, name, func(d *meta.Data) error { return d.SetAdminPrivilege(name, o.Admin) }, func() { m.users[name].admin = o.Admin })
		case "race":
			// A password change lands on the node after the old password has
			// been verified against the old hash and before it is entered into
			// the credential cache. The request in flight may succeed (it
			// began before the change); afterwards the old password is dead.
			u := m.users[name]
			if u == nil || anyPending() {
				continue
			}
			oldPw := u.pass
			newPw := passwords[(o.Pass+1)%len(passwords)]
			if newPw == oldPw {
				newPw = passwords[(o.Pass+2)%len(passwords)]
			}
			fired := false
			verifhook.SetYield(func(ev string, args ...interface{}) {
				if ev != "meta.authenticate.verified" || fired {
					return
				}
				fired = true
				idx, err := ms.apply(func(d *meta.Data) error { return d.UpdateUser(name, hash(newPw)) })
				if err != nil {
					return
				}
				u.pass = newPw
				lastIdx = idx
				settle(idx)
			})
			ro := &op{Cred: 0, CUser: o.User}
			for j, pw := range passwords {
				if pw == oldPw {
					ro.CPass = j
				}
			}
			// evict a possibly cached entry first: wrong password attempts do not cache
			code, _ := request(ro, "POST", "/query", url.Values{"q": {"SHOW DATABASES"}}, "")
			verifhook.SetYield(nil)
			rec.take()
			if !fired {
				run.Logf("race window not reached (credential already cached), first request -> %d", code)
				continue
			}
			run.Probe("change-in-authentication-window")
			code2, body2 := request(ro, "POST", "/query", url.Values{"q": {"SHOW DATABASES"}}, "")
			stm, _ := rec.take()
			if code2 != http.StatusUnauthorized || len(stm) > 0 {
				run.Fail("old-password-accepted-after-change-reached-node", "credential-cache", "user %s: password changed (metadata index %d installed on the node) while an authentication with the old password was between verification and caching; the next request with the OLD password got %d %s and executed %v", name, lastIdx, code2, strings.TrimSpace(body2), stm)
				return
			}
		case "write":
			db := dbs[o.DB]
			cu := userNames[o.CUser]
			// whether every change had reached the node is asked before the request is made
			settledBefore := reached(cu) && !anyPending()
			code, body := request(o, "POST", "/write", url.Values{"db": {db}}, "m,a=x f=1 1000\n")
			_, writes := rec.take()
			if !settledBefore {
				run.Probe("request-unjudged-change-in-flight")
				continue
			}
			u, ok := authenticated(o)
			allowed := false
			switch {
			case !m.adminExists():
				// no administrator yet: nothing but the creation of the first one may run
				run.Probe("request-before-first-admin")
				if anyPending() {
					continue
				}
				if len(writes) > 0 {
					run.Fail("write-executed-before-first-admin", "", "op%d: no administrator exists, yet a write to %s was executed (-> %d)", i, db, code)
					return
				}
				continue
			case ok && u.satisfies(write(db)):
				allowed = true
			}
			if anyPending() && !allowed {
				// somebody else's change in flight may be what makes an admin exist
				continue
			}
			if !allowed && len(writes) > 0 {
				run.Fail("write-executed-without-authority", "", "op%d: write to %s with credentials %s -> %d, executed although the model says %s", i, db, describeCred(o), code, why(m, o, []need{write(db)}))
				return
			}
			if allowed && len(writes) == 0 {
				run.Fail("authorised-write-refused", "", "op%d: write to %s with credentials %s -> %d %s although %s", i, db, describeCred(o), code, strings.TrimSpace(body), why(m, o, []need{write(db)}))
				return
			}
			run.Probe("write-judged")
			if !allowed {
				run.Probe("write-denied")
			}
		case "query":
			db := dbs[o.DB]
			def := ""
			if o.DefDB >= 0 {
				def = dbs[o.DefDB]
			}
			var texts []string
			var needs []need
			lower := false
			for _, k := range o.Stmts {
				sk := stmtKinds[k]
				texts = append(texts, strings.ReplaceAll(sk.text, "$DB", db))
				needs = append(needs, sk.needs(db, def)...)
				lower = lower || sk.atLeast
			}
			form := url.Values{"q": {strings.Join(texts, "; ")}}
			if def != "" {
				form.Set("db", def)
			}
			cu := userNames[o.CUser]
			settledBefore := reached(cu) && !anyPending()
			code, body := request(o, "POST", "/query", form, "")
			stm, _ := rec.take()
			if !settledBefore {
				run.Probe("request-unjudged-change-in-flight")
				continue
			}
			u, ok := authenticated(o)
			// The exception for the first administrator holds "before any
			// user exists". Once users exist and the last administrator has
			// been dropped or demoted, nothing runs without valid credentials
			// and authority - in particular nobody may make themselves
			// administrator anonymously. (The node then skips authentication
			// and refuses every statement: what it refuses is not judged.)
			noAdmin := !m.adminExists()
			if noAdmin && len(m.users) > 0 {
				run.Probe("request-after-last-admin-removed")
			}
			if len(m.users) == 0 {
				// only the creation of the first administrator may run
				run.Probe("request-before-first-admin")
				for _, s := range stm {
					if !strings.HasPrefix(s, "CREATE USER") || !strings.Contains(s, "WITH ALL PRIVILEGES") {
						run.Fail("statement-executed-before-first-admin", "", "op%d: no user exists, yet %q was executed (request %q -> %d)", i, s, form.Get("q"), code)
						return
					}
				}
				continue
			}
			// a statement that needs a database but has none is an error of the request, not of authority
			needsDefault := false
			for _, n := range needs {
				if !n.admin && n.db == "" {
					needsDefault = true
				}
			}
			allowed := ok
			if ok {
				for _, n := range needs {
					if !u.satisfies(n) {
						allowed = false
					}
				}
			}
			if !allowed && len(stm) > 0 {
				run.Fail("statement-executed-without-authority", siteOf(texts), "op%d: %q (default database %q) with credentials %s -> %d, executed %v although %s", i, form.Get("q"), def, describeCred(o), code, stm, why(m, o, needs))
				return
			}
			if allowed && !noAdmin && !needsDefault && !lower && len(stm) != len(texts) {
				run.Fail("authorised-statement-refused", siteOf(texts), "op%d: %q (default database %q) with credentials %s -> %d %s, executed only %v although %s", i, form.Get("q"), def, describeCred(o), code, strings.TrimSpace(body), stm, why(m, o, needs))
				return
			}
			run.Probe("query-judged")
			if !allowed {
				run.Probe("query-denied")
			} else {
				run.Probe("query-allowed")
			}
			if len(texts) > 1 {
				run.Probe("multi-statement-request")
			}
		}
	}
	run.NonTrivial = run.Probes["query-denied"]+run.Probes["write-denied"] > 0 && run.Probes["query-allowed"] > 0
	var names []string
	for n := range m.users {
		names = append(names, n)
	}
	sort.Strings(names)
	run.Digest = strings.Join(names, ",")
}

func siteOf(texts []string) string {
	w := strings.Fields(texts[0])
	if len(w) > 1 && (w[0] == "SHOW" || w[0] == "CREATE" || w[0] == "DROP" || w[0] == "ALTER") {
		return w[0] + " " + w[1]
	}
	if w[0] == "SELECT" && strings.Contains(texts[0], " INTO ") {
		return "SELECT INTO"
	}
	return w[0]
}

func describeCred(o *op) string {
	how := []string{"basic", "query-params", "bearer", "none", "expired-bearer", "bearer-wrong-secret"}[o.Cred]
	pw := "<current>"
	if o.CPass < len(passwords) {
		pw = passwords[o.CPass]
	}
	return fmt.Sprintf("%s:%s/%s", how, userNames[o.CUser], pw)
}

func why(m *model, o *op, needs []need) string {
	u := m.users[userNames[o.CUser]]
	if u == nil {
		return fmt.Sprintf("user %s does not exist", userNames[o.CUser])
	}
	var ns []string
	for _, n := range needs {
		switch {
		case n.admin:
			ns = append(ns, "admin")
		case n.write:
			ns = append(ns, "WRITE on "+n.db)
		default:
			ns = append(ns, "READ on "+n.db)
		}
	}
	return fmt.Sprintf("user %s has password %s, admin=%v, grants %v; the request needs %v", userNames[o.CUser], u.pass, u.admin, u.privs, ns)
}

func describe(pl interface{}) interface{} {
	p := pl.(*plan)
	var ops []string
	for _, o := range p.Ops {
		switch o.Kind {
		case "query":
			var t []string
			for _, k := range o.Stmts {
				t = append(t, stmtKinds[k].text)
			}
			ops = append(ops, fmt.Sprintf("query %q db=%s def=%d cred=%s", strings.Join(t, "; "), dbs[o.DB], o.DefDB, describeCred(&o)))
		case "write":
			ops = append(ops, fmt.Sprintf("write db=%s cred=%s", dbs[o.DB], describeCred(&o)))
		default:
			ops = append(ops, fmt.Sprintf("%s user=%s pass=%s admin=%v db=%s priv=%d settle=%v", o.Kind, userNames[o.User], passwords[o.Pass], o.Admin, dbs[o.DB], o.Priv, o.Settle))
		}
	}
	return map[string]interface{}{"latency_ms": p.Latency, "ops": ops}
}

var _ net.Conn

func TestC16(t *testing.T) {
	core.Main(t, core.Harness{
		Property:       "C16",
		Gen:            genPlan,
		Exec:           exec,
		Bubble:         true,
		Describe:       describe,
		RequiredProbes: []string{"query-denied", "query-allowed", "write-denied", "write-judged", "multi-statement-request", "request-before-first-admin", "change-passwd", "change-grant", "change-dropuser", "change-in-authentication-window"},
		Real:           []string{"httpd.Handler (authenticate middleware, parseCredentials, serveQuery, serveWrite)", "meta.QueryAuthorizer / WriteAuthorizer, UserInfo.AuthorizeDatabase", "meta.Client: Authenticate, credential cache, updateAuthCache, the metadata polling loop over the simulated network", "meta.Data user/grant methods", "query.Executor (statement dispatch)", "jwt validation on the simulated clock"},
		Stub:           []string{"meta server: serves the authoritative meta.Data with long polling (no raft)", "statement execution and points writer: record what was let through"},
		Assumptions:    []string{"required privileges per statement kind are the harness' own table taken from the documented model (READ for SELECT/SHOW on a database, WRITE for writes and INTO targets, admin for database/user/retention management); DROP SERIES and DELETE are only held to the lower bound WRITE"},
		Rule:           "a run = 2-24 operations: user creation/removal, password change, grant/revoke, admin flag (each either awaited until it reached the node or left in flight), a password change placed between verification and caching of a credential, queries (1-3 statements of 32 kinds, explicit/default database) and writes with credentials by basic auth, query parameters, bearer token (valid, expired, wrong secret) or none; non-trivial = at least one request denied and one allowed",
	})
}
