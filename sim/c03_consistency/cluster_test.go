package c03

// Cluster mode: the whole write path with real components. A cluster of 2-4
// real data nodes (tsdb.Store, coordinator.Service behind tcp.Mux, ShardWriter
// with its connection pools, PointsWriter, the real hinted-handoff service
// with its queues and retry loops) on the simulated network and clock. The
// coordinating node writes batches at drawn consistency levels while the other
// nodes are down, refuse, stall, reset connections, answer slowly, or fail
// their local write. Oracles: an acknowledged write is stored on at least as
// many owners as its level demands at the moment it is acknowledged (for
// "any": stored or durably queued somewhere); a replica that hinted handoff
// accepted receives the points once its node is reachable again; no owner
// holds a point that was never written.

import (
	"fmt"
	"path/filepath"
	"sort"
	"sync"
	"time"

	"github.com/influxdata/influxdb/coordinator"
	"github.com/influxdata/influxdb/models"
	"github.com/influxdata/influxdb/services/hh"
	"github.com/influxdata/influxdb/services/meta"
	"github.com/influxdata/influxdb/tsdb"
	"github.com/influxdata/influxql"
	"pgregory.net/rapid"

	"verifsim/clustersim"
	"verifsim/core"
	"verifsim/model"
	"verifsim/simnet"
	"verifsim/storesim"
)

type cwrite struct {
	Level   int // 0 any, 1 one, 2 quorum, 3 all
	NPoints int
	Series  int
	// Conflict: the points carry field v as a string; every owner holds v as
	// a float (seeded before the first step), so every owner rejects them for
	// good ("field type conflict"): nothing is stored, nothing is retried
	Conflict bool
}

type cfault struct {
	Kind string // none, down, refuse, stall, reset, slow, late, storefail
	K    int64
}

type cstep struct {
	Write  *cwrite
	Faults []cfault // when set: the fault of every node from now on (index = node-1)
	Sleep  int      // seconds
}

type clusterPlan struct {
	Nodes int
	RF    int
	Coord int
	Steps []cstep
	Index string
}

var ct0 = time.Date(2000, 1, 1, 0, 0, 0, 0, time.UTC)

func genClusterPlan(t *rapid.T) *clusterPlan {
	p := &clusterPlan{}
	p.Nodes = rapid.IntRange(2, 4).Draw(t, "cl.nodes")
	p.RF = rapid.IntRange(1, p.Nodes).Draw(t, "cl.rf")
	p.Coord = rapid.IntRange(1, p.Nodes).Draw(t, "cl.coord")
	p.Index = rapid.SampledFrom([]string{"inmem", "tsi1"}).Draw(t, "cl.index")
	n := rapid.IntRange(2, 12).Draw(t, "cl.nsteps")
	for i := 0; i < n; i++ {
		l := fmt.Sprintf("cl.s%d", i)
		switch k := rapid.IntRange(0, 9).Draw(t, l+".kind"); {
		case k < 6:
			p.Steps = append(p.Steps, cstep{Write: &cwrite{
				Level:    rapid.IntRange(0, 3).Draw(t, l+".level"),
				NPoints:  rapid.IntRange(1, 4).Draw(t, l+".np"),
				Series:   rapid.IntRange(0, 5).Draw(t, l+".series"),
				Conflict: rapid.IntRange(0, 5).Draw(t, l+".conflict") == 0,
			}})
		case k < 9:
			var fs []cfault
			for j := 0; j < p.Nodes; j++ {
				fs = append(fs, cfault{
					Kind: rapid.SampledFrom([]string{"none", "none", "none", "down", "refuse", "stall", "reset", "slow", "late", "storefail"}).Draw(t, fmt.Sprintf("%s.f%d", l, j)),
					K:    int64(rapid.IntRange(0, 60).Draw(t, fmt.Sprintf("%s.k%d", l, j))),
				})
			}
			p.Steps = append(p.Steps, cstep{Faults: fs})
		default:
			p.Steps = append(p.Steps, cstep{Sleep: rapid.SampledFrom([]int{1, 5, 30}).Draw(t, l+".sleep")})
		}
	}
	return p
}

// hhRec wraps the node's real handoff service and records what it accepted.
type hhRec struct {
	svc *hh.Service
	mu  sync.Mutex
	acc map[uint64][]string // owner -> accepted point keys
	run *core.Run
}

func pointKey(p models.Point) string { return fmt.Sprintf("%s@%d", p.Key(), p.UnixNano()) }

func (h *hhRec) WriteShard(shardID, ownerID uint64, points []models.Point) error {
	err := h.svc.WriteShard(shardID, ownerID, points)
	if err == nil {
		h.mu.Lock()
		for _, p := range points {
			h.acc[ownerID] = append(h.acc[ownerID], pointKey(p))
		}
		h.mu.Unlock()
		h.run.Probe("handoff-accepted")
	} else {
		h.run.Probe("handoff-refused")
	}
	return err
}

func (h *hhRec) Empty(shardID, ownerID uint64) bool { return h.svc.Empty(shardID, ownerID) }

func execCluster(run *core.Run, p *clusterPlan) {
	data := &meta.Data{}
	for i := 1; i <= p.Nodes; i++ {
		data.Index++
		if err := data.CreateDataNode(fmt.Sprintf("node%d:8086", i), clustersim.Addr(uint64(i))); err != nil {
			run.Fail("harness-error", "", "CreateDataNode: %v", err)
			return
		}
	}
	data.CreateDatabase(storesim.DB)
	if err := data.CreateRetentionPolicy(storesim.DB, &meta.RetentionPolicyInfo{Name: storesim.RP, ReplicaN: p.RF, Duration: 0, ShardGroupDuration: time.Hour}, true); err != nil {
		run.Fail("harness-error", "", "CreateRetentionPolicy: %v", err)
		return
	}
	data.Index++
	if err := data.CreateShardGroup(storesim.DB, storesim.RP, ct0); err != nil {
		run.Fail("harness-error", "", "CreateShardGroup: %v", err)
		return
	}
	c, err := clustersim.New(filepath.Join(run.Scratch, "c"), data, p.Index)
	if err != nil {
		run.Fail("harness-error", "", "cluster: %v", err)
		return
	}
	defer c.Close()
	coord := c.Node(uint64(p.Coord))
	// the coordinator's real hinted-handoff service
	hcfg := hh.NewConfig()
	hcfg.Enabled = true
	hcfg.Dir = filepath.Join(run.Scratch, "hh")
	svc := hh.NewService(hcfg, coord.SW)
	svc.MetaClient = coord.Meta
	if err := svc.Open(); err != nil {
		run.Fail("harness-error", "", "hh open: %v", err)
		return
	}
	defer svc.Close()
	rec := &hhRec{svc: svc, acc: map[uint64][]string{}, run: run}
	coord.PW.HintedHandoff = rec

	// faults
	var fmu sync.Mutex
	faults := make([]cfault, p.Nodes)
	for i := range faults {
		faults[i].Kind = "none"
	}
	// the inter-node protocol is strict request/response without request
	// ids: a reply that was sent before the current request arrived can only
	// be the late answer to an earlier, abandoned request
	c.Net.OnStaleReply = func(desc string) {
		run.Fail("stale-reply-taken-for-answer", "", "%s", desc)
	}
	c.Net.OnFault = func(kind string) { run.Fault("net-" + kind) }
	c.Net.PolicyFor = func(addr string, n int) simnet.Policy {
		fmu.Lock()
		defer fmu.Unlock()
		pol := simnet.NoFault
		for i := range faults {
			if clustersim.Addr(uint64(i+1)) != addr {
				continue
			}
			switch faults[i].Kind {
			case "refuse", "down":
				pol.Refuse = true
			case "stall":
				pol.Stall = true
			case "reset":
				pol.ResetC2S = faults[i].K
			case "slow":
				pol.Latency = time.Duration(20+faults[i].K) * time.Millisecond
				pol.Fragment = int(1 + faults[i].K%5)
			case "late":
				// answers, but only after the writer has given up: request
				// and response each take more than half the write timeout.
				// The connection stays open and the late answer does arrive.
				pol.Latency = time.Duration(coordinator.DefaultWriteTimeout)/2 + time.Duration(1+faults[i].K%3)*time.Second
			}
		}
		return pol
	}
	for _, n := range c.Nodes {
		n := n
		n.Store.OnWrite = func(id uint64, pts []models.Point) error {
			fmu.Lock()
			k := faults[n.ID-1].Kind
			fmu.Unlock()
			if k == "storefail" {
				run.Fault("store-write-error")
				return fmt.Errorf("engine: write failed: input/output error")
			}
			return nil
		}
	}
	rp, _ := data.RetentionPolicy(storesim.DB, storesim.RP)
	group := rp.ShardGroups[0]
	// has reports which of the keys the node's store holds
	has := func(n *clustersim.Node, shard uint64, series int, keys map[int64]float64) (map[int64]bool, error) {
		out := map[int64]bool{}
		if n.Sim.Store.Shard(shard) == nil {
			return out, nil
		}
		obs, err := n.Sim.ReadCursors(shard, storesim.FullRange, []storesim.SeriesField{{M: "w", Tags: []model.Tag{{K: "s", V: fmt.Sprint(series)}}, Field: "v"}})
		if err != nil {
			return nil, err
		}
		for _, tv := range obs[fmt.Sprintf("w,s=%d", series)]["v"] {
			want, ok := keys[tv.T]
			if !ok || tv.V.F != want {
				return nil, fmt.Errorf("holds (%d, %v), which was never written", tv.T, tv.V)
			}
			out[tv.T] = true
		}
		return out, nil
	}
	type wrec struct {
		shard    uint64
		owners   []uint64
		series   int
		ts       []int64
		acked    bool
		conflict bool
	}
	var writes []wrec
	written := map[int]map[int64]float64{} // series -> t -> value
	var tn int64
	// every series is written once at level all before the first fault: its
	// shard then holds field v as a float on every owner
	steps := make([]cstep, 0, len(p.Steps)+6)
	for sr := 0; sr < 6; sr++ {
		steps = append(steps, cstep{Write: &cwrite{Level: 3, NPoints: 1, Series: sr}})
	}
	nseed := len(steps)
	steps = append(steps, p.Steps...)
	for si, st := range steps {
		si -= nseed // the seeding writes are steps -6..-1
		if run.Failed() {
			return
		}
		core.Progress()
		switch {
		case st.Sleep > 0:
			run.Op("sleep")
			time.Sleep(time.Duration(st.Sleep) * time.Second)
		case st.Faults != nil:
			run.Op("faults")
			var changed []string
			fmu.Lock()
			for i, f := range st.Faults {
				if i+1 == p.Coord {
					f.Kind = "none"
				}
				if c.Node(uint64(i+1)).IsDown() && f.Kind != "down" {
					// a node that was down cannot come back in this harness (its service is closed): it stays unreachable
					f.Kind = "refuse"
				}
				if faults[i] != f {
					changed = append(changed, clustersim.Addr(uint64(i+1)))
				}
				faults[i] = f
			}
			cur := append([]cfault(nil), faults...)
			fmu.Unlock()
			// the policy of a connection is fixed when it is dialled: a fault
			// that begins (or ends) takes the pooled connections to that node
			// with it, as the network event behind it would
			if len(changed) > 0 {
				k := c.Net.ResetWhere(func(remote string) bool {
					for _, a := range changed {
						if remote == a {
							return true
						}
					}
					return false
				})
				if k > 0 {
					run.Probe("pooled-connections-reset-at-fault-change")
				}
			}
			for i, f := range cur {
				if f.Kind == "down" {
					c.Node(uint64(i + 1)).Down()
				}
			}
			run.Logf("step%d faults now %v", si, cur)
		case st.Write != nil:
			run.Op("write")
			w := st.Write
			var pts []models.Point
			var ts []int64
			if written[w.Series] == nil {
				written[w.Series] = map[int64]float64{}
			}
			for j := 0; j < w.NPoints; j++ {
				tn++
				t := ct0.Add(time.Duration(tn) * time.Second)
				if w.Conflict {
					pts = append(pts, models.MustNewPoint("w", models.NewTags(map[string]string{"s": fmt.Sprint(w.Series)}), models.Fields{"v": fmt.Sprint("x", tn)}, t))
					ts = append(ts, t.UnixNano())
					continue
				}
				pts = append(pts, models.MustNewPoint("w", models.NewTags(map[string]string{"s": fmt.Sprint(w.Series)}), models.Fields{"v": float64(tn)}, t))
				ts = append(ts, t.UnixNano())
				written[w.Series][t.UnixNano()] = float64(tn)
			}
			sh := group.ShardFor(pts[0])
			var owners []uint64
			for _, o := range sh.Owners {
				owners = append(owners, o.NodeID)
			}
			level := []models.ConsistencyLevel{models.ConsistencyLevelAny, models.ConsistencyLevelOne, models.ConsistencyLevelQuorum, models.ConsistencyLevelAll}[w.Level]
			rec.mu.Lock()
			before := map[uint64]int{}
			for o, ks := range rec.acc {
				before[o] = len(ks)
			}
			rec.mu.Unlock()
			done := make(chan error, 1)
			go func() { done <- coord.PW.WritePointsPrivileged(storesim.DB, storesim.RP, level, pts) }()
			var werr error
			select {
			case werr = <-done:
			case <-time.After(5 * time.Minute):
				run.Fail("write-never-returns", "", "step%d: a write at level %v did not return within 5 simulated minutes (the write timeout is %v)", si, level, coord.PW.WriteTimeout)
				return
			}
			run.Logf("step%d write %d points series %d level %v owners %v conflict=%v -> %v", si, w.NPoints, w.Series, level, owners, w.Conflict, werr)
			if si < 0 && werr != nil {
				run.Fail("harness-error", "", "seeding write %d failed: %v", si, werr)
				return
			}
			if w.Conflict {
				run.Probe("write-with-field-type-conflict")
			}
			wr := wrec{shard: sh.ID, owners: owners, series: w.Series, ts: ts, acked: werr == nil, conflict: w.Conflict}
			writes = append(writes, wr)
			if werr != nil {
				run.Probe("write-refused")
				continue
			}
			run.Probe("write-acknowledged")
			// how many owners hold all points of the batch right now
			stored, queued := 0, 0
			for _, o := range owners {
				h, err := has(c.Node(o), sh.ID, w.Series, written[w.Series])
				if err != nil {
					run.Fail("owner-holds-unwritten-data", "", "step%d node %d: %v", si, o, err)
					return
				}
				all := true
				for _, t := range ts {
					if !h[t] {
						all = false
					}
				}
				if all {
					stored++
					continue
				}
				rec.mu.Lock()
				if len(rec.acc[o]) > before[o] {
					queued++
				}
				rec.mu.Unlock()
			}
			need := 1
			switch level {
			case models.ConsistencyLevelQuorum:
				need = len(owners)/2 + 1
			case models.ConsistencyLevelAll:
				need = len(owners)
			}
			ok := stored >= need
			if level == models.ConsistencyLevelAny {
				ok = stored+queued >= 1
			}
			if !ok {
				fmu.Lock()
				cur := fmt.Sprint(faults)
				fmu.Unlock()
				run.Fail("acknowledged-below-consistency-level", fmt.Sprint(level), "step%d: write at level %v over owners %v was acknowledged, but only %d owners hold the points (%d more have them queued for handoff); the level needs %d (faults: %s)", si, level, owners, stored, queued, need, cur)
				return
			}
			if stored < len(owners) {
				run.Probe("acknowledged-with-owners-missing")
			}
		}
	}
	if run.Failed() {
		return
	}
	// faults stop (nodes that went down stay down); handoff must drain to the reachable owners
	fmu.Lock()
	reachable := map[uint64]bool{}
	for i, n := range c.Nodes {
		if n.IsDown() {
			faults[i].Kind = "refuse"
			continue
		}
		faults[i].Kind = "none"
		reachable[n.ID] = true
	}
	fmu.Unlock()
	time.Sleep(10 * time.Duration(hcfg.RetryMaxInterval))
	rec.mu.Lock()
	acc := map[uint64]map[string]bool{}
	for o, ks := range rec.acc {
		acc[o] = map[string]bool{}
		for _, k := range ks {
			acc[o][k] = true
		}
	}
	rec.mu.Unlock()
	var owners []uint64
	for o := range acc {
		owners = append(owners, o)
	}
	sort.Slice(owners, func(i, j int) bool { return owners[i] < owners[j] })
	for _, wr := range writes {
		if wr.conflict {
			continue // every owner rejects these for good: hinted handoff drops them
		}
		for _, o := range wr.owners {
			if !reachable[o] {
				continue
			}
			h, err := has(c.Node(o), wr.shard, wr.series, written[wr.series])
			if err != nil {
				run.Fail("owner-holds-unwritten-data", "", "after the drain, node %d: %v", o, err)
				return
			}
			for _, t := range wr.ts {
				key := fmt.Sprintf("w,s=%d@%d", wr.series, t)
				if acc[o][key] && !h[t] {
					run.Fail("handoff-accepted-point-never-delivered", "", "hinted handoff accepted the point %s for node %d; the node has been reachable and healthy for %v of simulated time and still does not hold it", key, o, 10*time.Duration(hcfg.RetryMaxInterval))
					return
				}
			}
		}
	}
	run.Probe("cluster-write-run")
	run.NonTrivial = run.Probes["acknowledged-with-owners-missing"]+run.Probes["write-refused"] > 0
	run.Digest = fmt.Sprintf("cluster/n%d/rf%d", p.Nodes, p.RF)
}

var _ = coordinator.ErrTimeout
var _ = tsdb.ErrShardNotFound
var _ = influxql.MinTime
