// C03 — cluster write honours the requested consistency level.
//
// One real coordinator.PointsWriter writes one batch to a shard with 1-5
// owners on the fake clock. The local store, the remote shard writer and (in
// half of the runs) hinted handoff are simulated owners whose outcome and
// answer time are drawn by the plan; in the other half hinted handoff is the
// real hh.Service on a scratch directory, so "durably queued" is checked
// against what the real queues deliver afterwards.
package c03

import (
	"errors"
	"fmt"
	"path/filepath"
	"sort"
	"strings"
	"sync"
	"testing"
	"time"

	"github.com/influxdata/influxdb/coordinator"
	"github.com/influxdata/influxdb/models"
	"github.com/influxdata/influxdb/services/hh"
	"github.com/influxdata/influxdb/services/meta"
	"github.com/influxdata/influxdb/tsdb"
	"pgregory.net/rapid"

	"verifsim/core"
)

type ownerPlan struct {
	NodeID    uint64
	DelayMS   int    // answer time of the direct write (local store or remote shard writer)
	Outcome   string // stored | retry | reject | localerr
	QueueBusy bool   // remote: handoff queue already non-empty
	HH        string // accept | full | blocked
}

type plan struct {
	Owners     []ownerPlan
	Coord      uint64 // node id of the coordinating node (may be an owner)
	Level      models.ConsistencyLevel
	TimeoutMS  int
	NPoints    int
	RealHH     bool
	OutOfOrder bool
	Cluster    *clusterPlan // cluster mode (whole write path with real components)
}

func genPlan(t *rapid.T) interface{} {
	p := &plan{}
	if rapid.IntRange(0, 7).Draw(t, "clustermode") == 0 {
		p.Cluster = genClusterPlan(t)
		return p
	}
	n := rapid.IntRange(1, 5).Draw(t, "owners")
	p.TimeoutMS = rapid.SampledFrom([]int{50, 200, 1000, 5000}).Draw(t, "timeout_ms")
	used := map[int]bool{p.TimeoutMS: true}
	for i := 0; i < n; i++ {
		o := ownerPlan{NodeID: uint64(i + 1)}
		// distinct answer times, none equal to the timeout, so that the plan decides every race
		for {
			switch rapid.IntRange(0, 5).Draw(t, fmt.Sprintf("o%d.dk", i)) {
			case 0:
				o.DelayMS = p.TimeoutMS + rapid.IntRange(1, 3000).Draw(t, fmt.Sprintf("o%d.late", i))
			default:
				o.DelayMS = rapid.IntRange(0, p.TimeoutMS-1).Draw(t, fmt.Sprintf("o%d.delay", i))
			}
			if !used[o.DelayMS] {
				used[o.DelayMS] = true
				break
			}
		}
		o.Outcome = rapid.SampledFrom([]string{"stored", "stored", "stored", "retry", "retry", "reject"}).Draw(t, fmt.Sprintf("o%d.outcome", i))
		o.QueueBusy = rapid.IntRange(0, 4).Draw(t, fmt.Sprintf("o%d.busy", i)) == 0
		o.HH = rapid.SampledFrom([]string{"accept", "accept", "accept", "full", "blocked"}).Draw(t, fmt.Sprintf("o%d.hh", i))
		p.Owners = append(p.Owners, o)
	}
	p.Coord = uint64(rapid.IntRange(1, n+1).Draw(t, "coord")) // n+1: the coordinator owns no copy
	p.Level = models.ConsistencyLevel(rapid.IntRange(0, 3).Draw(t, "level"))
	p.NPoints = rapid.IntRange(1, 4).Draw(t, "npoints")
	p.RealHH = rapid.Bool().Draw(t, "real_hh")
	p.OutOfOrder = rapid.IntRange(0, 7).Draw(t, "allow_out_of_order") == 0
	return p
}

var errRetryable = errors.New("dial tcp 10.0.0.9:8088: connect: connection refused")
var errPermanent = errors.New("partial write: field type conflict: input field \"v\" on measurement \"m\" is type float, already exists as type integer dropped=1")
var errLocal = errors.New("engine: cache-max-memory-size exceeded")

type world struct {
	mu      sync.Mutex
	p       *plan
	run     *core.Run
	stored  map[uint64][][]byte // node -> point payloads stored directly
	hhCalls map[uint64][][][]byte
	hhEmpty map[uint64]int
	t0      time.Time
	// real hinted handoff: what the queues delivered after the owners healed
	healed    bool
	delivered map[uint64][][]byte
}

func bin(points []models.Point) [][]byte {
	var out [][]byte
	for _, p := range points {
		b, _ := p.MarshalBinary()
		out = append(out, b)
	}
	return out
}

func (w *world) owner(id uint64) *ownerPlan {
	for i := range w.p.Owners {
		if w.p.Owners[i].NodeID == id {
			return &w.p.Owners[i]
		}
	}
	return nil
}

// meta client stub
type metaStub struct{ w *world }

func (m metaStub) NodeID() uint64 { return m.w.p.Coord }
func (m metaStub) Database(name string) *meta.DatabaseInfo {
	return &meta.DatabaseInfo{Name: name, DefaultRetentionPolicy: "rp"}
}
func (m metaStub) RetentionPolicy(database, policy string) (*meta.RetentionPolicyInfo, error) {
	return &meta.RetentionPolicyInfo{Name: "rp", ReplicaN: len(m.w.p.Owners), Duration: 0, ShardGroupDuration: time.Hour}, nil
}
func (m metaStub) CreateShardGroup(database, policy string, ts time.Time) (*meta.ShardGroupInfo, error) {
	var owners []meta.ShardOwner
	for _, o := range m.w.p.Owners {
		owners = append(owners, meta.ShardOwner{NodeID: o.NodeID})
	}
	return &meta.ShardGroupInfo{ID: 1, StartTime: time.Unix(0, models.MinNanoTime), EndTime: time.Unix(0, models.MaxNanoTime),
		Shards: []meta.ShardInfo{{ID: 10, Owners: owners}}}, nil
}

// local store stub
type storeStub struct{ w *world }

func (s storeStub) CreateShard(database, retentionPolicy string, shardID uint64, enabled bool) error {
	return nil
}
func (s storeStub) WriteToShard(shardID uint64, points []models.Point) error {
	w := s.w
	o := w.owner(w.p.Coord)
	time.Sleep(time.Duration(o.DelayMS) * time.Millisecond)
	w.mu.Lock()
	defer w.mu.Unlock()
	switch o.Outcome {
	case "stored":
		w.stored[o.NodeID] = append(w.stored[o.NodeID], bin(points)...)
		return nil
	case "reject":
		w.run.Fault("local-permanent-rejection")
		return tsdb.PartialWriteError{Reason: "field type conflict", Dropped: len(points)}
	default:
		w.run.Fault("local-error")
		return errLocal
	}
}

// remote shard writer stub
type writerStub struct{ w *world }

func (s writerStub) WriteShard(shardID, ownerID uint64, points []models.Point) error {
	w := s.w
	o := w.owner(ownerID)
	time.Sleep(time.Duration(o.DelayMS) * time.Millisecond)
	w.mu.Lock()
	defer w.mu.Unlock()
	switch o.Outcome {
	case "stored":
		w.stored[ownerID] = append(w.stored[ownerID], bin(points)...)
		return nil
	case "reject":
		w.run.Fault("remote-permanent-rejection")
		return errPermanent
	default:
		w.run.Fault("remote-retryable-error")
		return errRetryable
	}
}

// WriteShardBinary: target of the real hinted-handoff service when it
// delivers later.
func (s writerStub) WriteShardBinary(shardID, ownerID uint64, points [][]byte) error {
	w := s.w
	w.mu.Lock()
	defer w.mu.Unlock()
	if !w.healed {
		return errRetryable
	}
	for _, p := range points {
		w.delivered[ownerID] = append(w.delivered[ownerID], append([]byte(nil), p...))
	}
	return nil
}

// hinted handoff stub (model queue)
type hhStub struct{ w *world }

func (h hhStub) Empty(shardID, ownerID uint64) bool {
	w := h.w
	w.mu.Lock()
	defer w.mu.Unlock()
	w.hhEmpty[ownerID]++
	return !w.owner(ownerID).QueueBusy
}
func (h hhStub) WriteShard(shardID, ownerID uint64, points []models.Point) error {
	w := h.w
	w.mu.Lock()
	defer w.mu.Unlock()
	w.hhCalls[ownerID] = append(w.hhCalls[ownerID], bin(points))
	switch w.owner(ownerID).HH {
	case "full":
		w.run.Fault("handoff-refused-full")
		return hh.ErrQueueFull
	case "blocked":
		w.run.Fault("handoff-refused-blocked")
		return hh.ErrQueueBlocked
	}
	return nil
}

// real hinted handoff wrapped so that calls are observed and refusal can be injected
type hhReal struct {
	w   *world
	svc *hh.Service
}

func (h hhReal) Empty(shardID, ownerID uint64) bool {
	h.w.mu.Lock()
	h.w.hhEmpty[ownerID]++
	h.w.mu.Unlock()
	return h.svc.Empty(shardID, ownerID)
}
func (h hhReal) WriteShard(shardID, ownerID uint64, points []models.Point) error {
	w := h.w
	w.mu.Lock()
	w.hhCalls[ownerID] = append(w.hhCalls[ownerID], bin(points))
	mode := w.owner(ownerID).HH
	w.mu.Unlock()
	switch mode {
	case "full":
		w.run.Fault("handoff-refused-full")
		return hh.ErrQueueFull
	case "blocked":
		w.run.Fault("handoff-refused-blocked")
		return hh.ErrQueueBlocked
	}
	return h.svc.WriteShard(shardID, ownerID, points)
}

type nodeMeta struct{}

func (nodeMeta) DataNode(id uint64) (*meta.NodeInfo, error) { return &meta.NodeInfo{ID: id}, nil }

func levelName(l models.ConsistencyLevel) string {
	return [...]string{"any", "one", "quorum", "all"}[l]
}

func exec(run *core.Run, pl interface{}) {
	p := pl.(*plan)
	if p.Cluster != nil {
		execCluster(run, p.Cluster)
		return
	}
	w := &world{p: p, run: run, stored: map[uint64][][]byte{}, hhCalls: map[uint64][][][]byte{}, hhEmpty: map[uint64]int{},
		delivered: map[uint64][][]byte{}}
	pw := coordinator.NewPointsWriter()
	pw.WriteTimeout = time.Duration(p.TimeoutMS) * time.Millisecond
	pw.AllowOutOfOrderWrites = p.OutOfOrder
	pw.MetaClient = metaStub{w}
	pw.TSDBStore = storeStub{w}
	pw.ShardWriter = writerStub{w}
	var svc *hh.Service
	var prequeued = map[uint64][][]byte{}
	if p.RealHH {
		cfg := hh.NewConfig()
		cfg.Enabled = true
		cfg.Dir = filepath.Join(run.Scratch, "hh")
		svc = hh.NewService(cfg, writerStub{w})
		svc.MetaClient = nodeMeta{}
		if err := svc.Open(); err != nil {
			run.Fail("harness-error", "", "hh.Service.Open: %v", err)
			return
		}
		defer svc.Close()
		// "queue already non-empty": enqueue an earlier block for that owner
		for _, o := range p.Owners {
			if o.QueueBusy && o.NodeID != p.Coord {
				pt, _ := models.NewPoint("earlier", models.NewTags(map[string]string{"n": fmt.Sprint(o.NodeID)}), models.Fields{"v": int64(1)}, time.Unix(0, 1))
				if err := svc.WriteShard(10, o.NodeID, []models.Point{pt}); err != nil {
					run.Fail("harness-error", "", "pre-enqueue: %v", err)
					return
				}
				prequeued[o.NodeID] = bin([]models.Point{pt})
			}
		}
		pw.HintedHandoff = hhReal{w, svc}
	} else {
		pw.HintedHandoff = hhStub{w}
	}
	pw.Open()
	defer pw.Close()

	var points []models.Point
	for i := 0; i < p.NPoints; i++ {
		pt, err := models.NewPoint("m", models.NewTags(map[string]string{"k": fmt.Sprint(i)}), models.Fields{"v": int64(i)}, time.Unix(0, int64(100+i)))
		if err != nil {
			run.Fail("harness-error", "", "NewPoint: %v", err)
			return
		}
		points = append(points, pt)
	}
	want := bin(points)
	w.t0 = time.Now()
	err := pw.WritePointsPrivileged("db", "rp", p.Level, points)
	took := time.Since(w.t0)
	run.Logf("level=%s owners=%d coord=%d timeout=%dms -> err=%v after %v", levelName(p.Level), len(p.Owners), p.Coord, p.TimeoutMS, err, took)
	// let every owner goroutine finish (slow owners answer after the write returned)
	time.Sleep(10 * time.Second)

	// ---- expectations from the plan ----
	type fate struct {
		answer  int  // ms at which the owner's result reaches the collector
		stored  bool // stored by the owner
		queued  bool // durably queued for the owner
		offered bool // points must have been offered to hinted handoff exactly once
		direct  bool // a direct write was attempted
	}
	fates := map[uint64]fate{}
	for _, o := range p.Owners {
		var f fate
		if o.NodeID == p.Coord {
			f.direct = true
			f.answer = o.DelayMS
			f.stored = o.Outcome == "stored"
		} else if o.QueueBusy && !p.OutOfOrder {
			f.offered = true
			f.answer = 0
			f.queued = o.HH == "accept"
		} else {
			f.direct = true
			f.answer = o.DelayMS
			switch o.Outcome {
			case "stored":
				f.stored = true
			case "retry":
				f.offered = true
				f.queued = o.HH == "accept"
			}
		}
		fates[o.NodeID] = f
	}
	required := len(p.Owners)
	switch p.Level {
	case models.ConsistencyLevelAny, models.ConsistencyLevelOne:
		required = 1
	case models.ConsistencyLevelQuorum:
		required = len(p.Owners)/2 + 1
	}
	// successes in answer order
	var times []int
	storedN, lateN := 0, 0
	for _, o := range p.Owners {
		f := fates[o.NodeID]
		ok := f.stored || (p.Level == models.ConsistencyLevelAny && f.queued)
		if f.stored {
			storedN++
		}
		if f.answer >= p.TimeoutMS {
			lateN++
		}
		if ok {
			times = append(times, f.answer)
		}
	}
	sort.Ints(times)
	metAt := -1
	if len(times) >= required {
		metAt = times[required-1]
	}
	met := metAt >= 0 && metAt < p.TimeoutMS
	run.NonTrivial = len(p.Owners) > 1
	run.Digest = fmt.Sprintf("%s/%d/%v/%v", levelName(p.Level), len(p.Owners), met, p.RealHH)
	run.Probe("level-" + levelName(p.Level))
	if met {
		run.Probe("level-met")
	} else {
		run.Probe("level-not-met")
	}

	desc := func() string {
		var s []string
		for _, o := range p.Owners {
			f := fates[o.NodeID]
			role := "remote"
			if o.NodeID == p.Coord {
				role = "local"
			}
			s = append(s, fmt.Sprintf("node%d(%s outcome=%s busy=%v hh=%s answer=%dms stored=%v queued=%v)", o.NodeID, role, o.Outcome, o.QueueBusy, o.HH, f.answer, f.stored, f.queued))
		}
		return strings.Join(s, " ")
	}
	switch {
	case met && err != nil:
		run.Fail("level-met-but-failure-reported", levelName(p.Level), "level %s was met at %dms (timeout %dms, required %d) but the write returned %q; %s", levelName(p.Level), metAt, p.TimeoutMS, required, err, desc())
	case !met && err == nil:
		run.Fail("success-reported-without-level", levelName(p.Level), "level %s was not met (required %d) but the write reported success; %s", levelName(p.Level), required, desc())
	case !met && lateN == 0:
		// every owner answered before the timeout: classification is decided
		if storedN > 0 && !errors.Is(err, coordinator.ErrPartialWrite) {
			run.Fail("partial-write-misreported", levelName(p.Level), "%d of %d owners stored the points, level %s needs %d: expected %q, got %q; %s", storedN, len(p.Owners), levelName(p.Level), required, coordinator.ErrPartialWrite, err, desc())
		}
		if storedN == 0 && (errors.Is(err, coordinator.ErrPartialWrite) || errors.Is(err, coordinator.ErrTimeout)) {
			run.Fail("failure-misreported", levelName(p.Level), "no owner stored the points and all answered before the timeout, but the write returned %q; %s", err, desc())
		}
	}
	if run.Failed() {
		return
	}
	// hinted handoff offers
	w.mu.Lock()
	defer w.mu.Unlock()
	for _, o := range p.Owners {
		f := fates[o.NodeID]
		calls := w.hhCalls[o.NodeID]
		if f.offered {
			run.Probe("handoff-offered")
			if len(calls) != 1 {
				run.Fail("handoff-not-offered-exactly-once", "", "node%d could not be written (outcome=%s, queue busy=%v): points were offered to hinted handoff %d times; %s", o.NodeID, o.Outcome, o.QueueBusy, len(calls), desc())
				return
			}
			if !equal(calls[0], want) {
				run.Fail("handoff-wrong-points", "", "node%d: hinted handoff was offered %d points, the batch for that owner has %d (or they differ)", o.NodeID, len(calls[0]), len(want))
				return
			}
		} else if len(calls) != 0 {
			run.Fail("handoff-offered-without-reason", "", "node%d (outcome=%s, local=%v) got %d hinted-handoff offers although it was stored or permanently rejected; %s", o.NodeID, o.Outcome, o.NodeID == p.Coord, len(calls), desc())
			return
		}
		if f.stored && !equal(w.stored[o.NodeID], want) {
			run.Fail("owner-stored-wrong-points", "", "node%d stored %d points, batch has %d", o.NodeID, len(w.stored[o.NodeID]), len(want))
			return
		}
		if !f.direct && len(w.stored[o.NodeID]) != 0 {
			run.Fail("direct-write-overtook-queue", "", "node%d has a non-empty handoff queue but was written directly; %s", o.NodeID, desc())
			return
		}
	}
	if p.RealHH {
		// Heal the owners: the real queues must deliver what was durably queued,
		// earlier blocks first (bounded liveness after faults stop).
		w.healed = true
		w.mu.Unlock()
		time.Sleep(60 * time.Second)
		w.mu.Lock()
		for _, o := range p.Owners {
			f := fates[o.NodeID]
			var expect [][]byte
			expect = append(expect, prequeued[o.NodeID]...)
			if f.queued {
				expect = append(expect, want...)
			}
			if !equal(w.delivered[o.NodeID], expect) {
				run.Fail("queued-points-not-delivered", "", "node%d: after the owner healed the real hinted-handoff queue delivered %d points, expected %d (earlier block first, then this write); %s", o.NodeID, len(w.delivered[o.NodeID]), len(expect), desc())
				return
			}
			if len(expect) > 0 {
				run.Probe("real-handoff-delivered")
			}
		}
	}
}

func equal(a, b [][]byte) bool {
	if len(a) != len(b) {
		return false
	}
	for i := range a {
		if string(a[i]) != string(b[i]) {
			return false
		}
	}
	return true
}

func describe(pl interface{}) interface{} {
	p := pl.(*plan)
	var os []string
	for _, o := range p.Owners {
		os = append(os, fmt.Sprintf("node%d delay=%dms outcome=%s busy=%v hh=%s", o.NodeID, o.DelayMS, o.Outcome, o.QueueBusy, o.HH))
	}
	if p.Cluster != nil {
		var steps []string
		for _, s := range p.Cluster.Steps {
			switch {
			case s.Write != nil:
				steps = append(steps, fmt.Sprintf("write(level=%d,points=%d,series=%d)", s.Write.Level, s.Write.NPoints, s.Write.Series))
			case s.Faults != nil:
				steps = append(steps, fmt.Sprintf("faults%v", s.Faults))
			default:
				steps = append(steps, fmt.Sprintf("sleep(%ds)", s.Sleep))
			}
		}
		return map[string]interface{}{"mode": "cluster", "nodes": p.Cluster.Nodes, "rf": p.Cluster.RF, "coordinator": p.Cluster.Coord, "index": p.Cluster.Index, "steps": steps}
	}
	return map[string]interface{}{"level": levelName(p.Level), "coordinator": p.Coord, "timeout_ms": p.TimeoutMS, "owners": os, "points": p.NPoints, "real_hh": p.RealHH, "allow_out_of_order": p.OutOfOrder}
}

func TestC03(t *testing.T) {
	core.Main(t, core.Harness{
		Property:       "C03",
		Gen:            genPlan,
		Exec:           exec,
		Bubble:         true,
		Describe:       describe,
		Tier:           "B",
		RequiredProbes: []string{"level-any", "level-one", "level-quorum", "level-all", "level-met", "level-not-met", "handoff-offered", "real-handoff-delivered", "cluster-write-run", "handoff-accepted", "acknowledged-with-owners-missing", "write-refused"},
		Real:           []string{"coordinator.PointsWriter (MapShards, writeToShardWithContext)", "hh.Service / NodeProcessor / queue (half of the runs)", "models binary point encoding", "cluster mode (one run in eight): 2-4 real data nodes - tsdb.Store, coordinator.Service behind tcp.Mux, ShardWriter with connection pools, PointsWriter, hh.Service with queues and retry loops - on the simulated network and clock"},
		Stub:           []string{"owners' stores (local TSDBStore, remote ShardWriter): outcome and answer time scripted", "meta client (one shard, drawn owners)", "hinted handoff as a model queue (other half of the runs)", "cluster mode: meta client over generated metadata; a node taken down stays down for the rest of the run"},
		Assumptions: []string{
			"answer times are distinct and never equal to the timeout, so that every race is decided by the plan",
			"when some owner has not answered by the timeout and the level is not met, any error is accepted (timeout or partial write)",
		},
		Rule: "a run = one batch written by the real PointsWriter to a shard with 1-5 owners; drawn: coordinator position, consistency level, per-owner outcome (stored / retryable / permanent / local error), answer time (before or after the timeout), handoff queue already non-empty, handoff accepts / refuses; non-trivial = more than one owner; distinct = distinct (level, #owners, met, real-hh, fault kinds, probes); cluster mode: 2-12 steps on a real cluster (writes of 1-4 points at a drawn level; fault assignments per node: down, refuse, stall, reset, slow+fragmented, failing local write; sleeps), then heal and drain: an acknowledged write is on as many owners as its level demands when it is acknowledged, what handoff accepted reaches every reachable owner, no owner holds unwritten data",
	})
}
