// Package clustersim assembles an in-process cluster of data nodes the way
// cmd/influxd/run/server.go does: per node a real tsdb.Store, a real
// coordinator.Service on a simulated network listener, a real MetaExecutor,
// ShardWriter, PointsWriter, ClusterShardMapper and query.Executor, and a
// real meta.Client holding the cluster's metadata. All inter-node traffic
// runs on simnet through the tag-guarded dial hook.
package clustersim

import (
	"context"
	"fmt"
	"path/filepath"
	"regexp"
	"sort"
	"sync"
	"time"

	"github.com/influxdata/influxdb/coordinator"
	"github.com/influxdata/influxdb/models"
	"github.com/influxdata/influxdb/pkg/verifhook"
	"github.com/influxdata/influxdb/query"
	"github.com/influxdata/influxdb/services/meta"
	"github.com/influxdata/influxdb/services/storage"
	"github.com/influxdata/influxdb/tcp"
	"github.com/influxdata/influxdb/toml"
	"github.com/influxdata/influxdb/tsdb"
	"github.com/influxdata/influxql"

	"verifsim/simnet"
	"verifsim/storesim"
)

// Node is one simulated data node.
type Node struct {
	ID      uint64
	TCPAddr string
	Sim     *storesim.Sim
	Store   *StoreWrap
	Meta    *meta.Client
	Svc     *coordinator.Service
	ME      *coordinator.MetaExecutor
	SW      *coordinator.ShardWriter
	PW      *coordinator.PointsWriter
	QE      *query.Executor
	CS      *storage.ClusterStore // what the storage (read) service of the node uses
	ln      *simnet.Listener
	dln     *simnet.Listener
	mux     *tcp.Mux
	down    bool
}

// IsDown tells whether Down was called.
func (n *Node) IsDown() bool { return n.down }

// Down stops the node's inter-node service (the node is "down" for its peers).
func (n *Node) Down() {
	if !n.down {
		n.down = true
		n.ln.Close()
		n.Svc.Close()
	}
}

// StoreWrap embeds the node's real store, records which shards were asked of
// it and can be told to fail (the real remote handler then produces the real
// error reply).
type StoreWrap struct {
	*tsdb.Store
	mu     sync.Mutex
	Served [][]uint64 // shard ids per ShardGroup call
	Fail   bool
	node   uint64
	// OnWrite, when set, sees every WriteToShard before the store does; a
	// non-nil error is returned to the caller instead of writing.
	OnWrite func(id uint64, pts []models.Point) error
}

// WriteToShard lets OnWrite inspect the points first.
func (s *StoreWrap) WriteToShard(id uint64, pts []models.Point) error {
	if s.OnWrite != nil {
		if err := s.OnWrite(id, pts); err != nil {
			return err
		}
	}
	return s.Store.WriteToShard(id, pts)
}

type failingGroup struct{ err error }

func (f failingGroup) MeasurementsByRegex(re *regexp.Regexp) []string { return nil }
func (f failingGroup) FieldKeysByMeasurement(name []byte) []string    { return nil }
func (f failingGroup) FieldDimensions(measurements []string) (map[string]influxql.DataType, map[string]struct{}, error) {
	return nil, nil, f.err
}
func (f failingGroup) MapType(measurement, field string) influxql.DataType { return influxql.Unknown }
func (f failingGroup) CreateIterator(ctx context.Context, m *influxql.Measurement, opt query.IteratorOptions) (query.Iterator, error) {
	return nil, f.err
}
func (f failingGroup) IteratorCost(measurement string, opt query.IteratorOptions) (query.IteratorCost, error) {
	return query.IteratorCost{}, f.err
}
func (f failingGroup) ExpandSources(sources influxql.Sources) (influxql.Sources, error) {
	return nil, f.err
}

// ShardGroup records the request and delegates to the real store.
func (s *StoreWrap) ShardGroup(ids []uint64) tsdb.ShardGroup {
	s.mu.Lock()
	fail := s.Fail
	cp := append([]uint64(nil), ids...)
	sort.Slice(cp, func(i, j int) bool { return cp[i] < cp[j] })
	s.Served = append(s.Served, cp)
	s.mu.Unlock()
	if fail {
		return failingGroup{fmt.Errorf("node %d: engine: error reading shard: input/output error", s.node)}
	}
	return s.Store.ShardGroup(ids)
}

// TakeServed returns and clears the served log.
func (s *StoreWrap) TakeServed() [][]uint64 {
	s.mu.Lock()
	defer s.mu.Unlock()
	out := s.Served
	s.Served = nil
	return out
}

// Cluster is the in-process cluster.
type Cluster struct {
	Net      *simnet.Net
	Data     *meta.Data
	Nodes    []*Node
	Root     string
	ownsHook bool
}

// Addr is the inter-node address of node id.
func Addr(id uint64) string { return fmt.Sprintf("node%d:8088", id) }

// New builds a cluster of n data nodes over the given metadata (which must
// already list them as data nodes with Addr(id) as TCP address).
func New(root string, data *meta.Data, index string) (*Cluster, error) {
	c := &Cluster{Net: simnet.New(), Data: data, Root: root, ownsHook: true}
	verifhook.SetDial(c.Net.DialHook())
	return c.start(index)
}

// NewOn builds a cluster on a private network without installing the dial
// hook (a single-node reference never dials).
func NewOn(root string, data *meta.Data, index string, _ string) (*Cluster, error) {
	c := &Cluster{Net: simnet.New(), Data: data, Root: root}
	return c.start(index)
}

func (c *Cluster) start(index string) (*Cluster, error) {
	data := c.Data
	for _, ni := range data.DataNodes {
		n, err := c.startNode(ni, index)
		if err != nil {
			c.Close()
			return nil, err
		}
		c.Nodes = append(c.Nodes, n)
	}
	return c, nil
}

func (c *Cluster) startNode(ni meta.NodeInfo, index string) (*Node, error) {
	n := &Node{ID: ni.ID, TCPAddr: ni.TCPAddr}
	sim, err := storesim.Open(filepath.Join(c.Root, fmt.Sprintf("node%d", ni.ID)), storesim.Opts{Index: index})
	if err != nil {
		return nil, err
	}
	n.Sim = sim
	n.Store = &StoreWrap{Store: sim.Store, node: ni.ID}
	mc := meta.NewConfig()
	mc.Dir = filepath.Join(c.Root, fmt.Sprintf("meta%d", ni.ID))
	n.Meta = meta.VerifNewClient(mc, ni.TCPAddr, c.Data)

	cc := coordinator.NewConfig()
	// The default shard reader timeout is "none": a peer that accepts a
	// request and never answers would block the caller forever by
	// configuration. The simulated deployment sets one.
	cc.ShardReaderTimeout = toml.Duration(5 * time.Second)
	n.SW = coordinator.NewShardWriter(time.Duration(cc.WriteTimeout), time.Duration(cc.DialTimeout), time.Duration(cc.PoolMaxIdleTime), cc.PoolMaxIdleStreams)
	n.SW.MetaClient = n.Meta
	n.ME = coordinator.NewMetaExecutor(time.Duration(cc.ShardReaderTimeout), time.Duration(cc.DialTimeout), time.Duration(cc.PoolMaxIdleTime), cc.PoolMaxIdleStreams)
	n.ME.MetaClient = n.Meta
	n.PW = coordinator.NewPointsWriter()
	n.PW.WriteTimeout = time.Duration(cc.WriteTimeout)
	n.PW.TSDBStore = n.Sim.Store
	n.PW.ShardWriter = n.SW
	n.PW.MetaClient = n.Meta
	n.PW.HintedHandoff = noHandoff{}
	n.PW.Open()

	n.QE = query.NewExecutor()
	n.QE.StatementExecutor = &coordinator.StatementExecutor{
		MetaClient:  n.Meta,
		TaskManager: &coordinator.ClusterTaskManager{TaskManager: n.QE.TaskManager, MetaExecutor: n.ME},
		TSDBStore:   &coordinator.ClusterTSDBStore{Store: n.Sim.Store, MetaExecutor: n.ME},
		ShardMapper: &coordinator.ClusterShardMapper{
			MetaClient:   n.Meta,
			TSDBStore:    n.Store,
			MetaExecutor: n.ME,
		},
		PointsWriter: n.PW,
	}

	n.CS = storage.NewClusterStore(&coordinator.ClusterTSDBStore{Store: n.Sim.Store, MetaExecutor: n.ME}, n.Meta, n.ME)

	n.Svc = coordinator.NewService(cc)
	n.Svc.TSDBStore = n.Store
	n.Svc.MetaClient = n.Meta
	n.Svc.TaskManager = n.QE.TaskManager
	n.Svc.Server = serverStub{tcp: ni.TCPAddr, http: ni.Addr}
	n.Svc.HintedHandoff = noHandoff{}
	n.Svc.Store = storage.NewStore(n.Sim.Store, n.Meta)
	ln, err := c.Net.Listen(ni.TCPAddr)
	if err != nil {
		return nil, err
	}
	dln, err := c.Net.Listen(ni.TCPAddr + ".default")
	if err != nil {
		return nil, err
	}
	n.ln, n.dln = ln, dln
	// As in the server: the inter-node port is multiplexed by its first byte.
	n.mux = tcp.NewMux()
	n.Svc.Listener = n.mux.Listen(coordinator.MuxHeader)
	n.Svc.DefaultListener = dln
	go n.mux.Serve(ln)
	if err := n.Svc.Open(); err != nil {
		return nil, err
	}
	return n, nil
}

type serverStub struct{ tcp, http string }

func (s serverStub) Reset() error       { return nil }
func (s serverStub) HTTPAddr() string   { return s.http }
func (s serverStub) HTTPScheme() string { return "http" }
func (s serverStub) TCPAddr() string    { return s.tcp }

type noHandoff struct{}

func (noHandoff) WriteShard(shardID, ownerID uint64, points []models.Point) error {
	return fmt.Errorf("hinted handoff disabled in this simulation")
}
func (noHandoff) Empty(shardID, ownerID uint64) bool { return true }
func (noHandoff) RemoveNode(ownerID uint64) error    { return nil }

// Node returns the node with the given id.
func (c *Cluster) Node(id uint64) *Node {
	for _, n := range c.Nodes {
		if n.ID == id {
			return n
		}
	}
	return nil
}

// Close stops every node.
func (c *Cluster) Close() {
	for _, n := range c.Nodes {
		if n.Svc != nil && !n.down {
			n.down = true
			n.ln.Close()
			n.Svc.Close()
		}
		if n.ME != nil {
			n.ME.Close()
		}
		if n.SW != nil {
			n.SW.Close()
		}
		if n.PW != nil {
			n.PW.Close()
		}
		if n.QE != nil {
			n.QE.Close()
		}
		if n.Sim != nil {
			n.Sim.Close()
		}
	}
	if c.ownsHook {
		verifhook.SetDial(nil)
	}
}
