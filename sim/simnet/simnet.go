// Package simnet is the simulated network: in-memory listeners and
// connections (FIFO byte streams, like TCP) with plan-decided faults acting on
// connections, never silently inside a stream: refuse, dial delay, per-write
// latency, fragmentation, reset or clean close after a byte count, stall
// (peer accepts but nothing is delivered). Deadlines read the (fake) clock.
// All blocking is on sync.Cond / timers, which testing/synctest treats as
// durable, so simulated time advances while peers wait for each other.
package simnet

import (
	"errors"
	"fmt"
	"io"
	"net"
	"os"
	"sync"
	"time"
)

// Policy is the fault plan of one connection.
type Policy struct {
	Refuse    bool          // dial fails: connection refused
	DialDelay time.Duration // time the dial takes (may exceed the caller's timeout)
	Latency   time.Duration // delivery delay of every write
	Fragment  int           // deliver writes in pieces of at most this many bytes (0 = whole)
	// ResetC2S / ResetS2C: after that many bytes have been delivered in the
	// direction, the connection is reset (both ends fail). -1 = never.
	ResetC2S, ResetS2C int64
	// CloseS2C: after that many bytes server->client the server side is
	// closed cleanly (client reads EOF). -1 = never.
	CloseS2C int64
	Stall    bool // bytes client->server are swallowed: the server never answers
}

// NoFault is the fault-free policy.
var NoFault = Policy{ResetC2S: -1, ResetS2C: -1, CloseS2C: -1}

// Net is one simulated network.
type Net struct {
	mu        sync.Mutex
	listeners map[string]*Listener
	seq       map[string]int
	// PolicyFor decides the policy of the n-th connection (0-based) dialled
	// to addr. nil = no faults.
	PolicyFor func(addr string, n int) Policy
	// OnFault is told when a fault takes effect.
	OnFault func(kind string)
	Dials   int
	live    []*conn // client ends of established connections
	// OnStaleReply, when set, is told when a client end reads bytes its peer
	// had sent before the client's current request reached the peer - i.e. a
	// client of a strict request/response protocol without request ids takes
	// the late answer to an earlier, abandoned request for the answer to its
	// current one (a connection reused after a timed-out read). Only for
	// networks that carry nothing but such protocols (no pipelining).
	OnStaleReply func(desc string)
}

// New returns an empty network.
func New() *Net {
	return &Net{listeners: map[string]*Listener{}, seq: map[string]int{}}
}

func (n *Net) fault(kind string) {
	if n.OnFault != nil {
		n.OnFault(kind)
	}
}

type addr string

func (a addr) Network() string { return "tcp" }
func (a addr) String() string  { return string(a) }

// Listener is an in-memory net.Listener.
type Listener struct {
	n      *Net
	a      string
	mu     sync.Mutex
	cond   *sync.Cond
	queue  []net.Conn
	closed bool
}

// Listen registers a listener on addr.
func (n *Net) Listen(a string) (*Listener, error) {
	n.mu.Lock()
	defer n.mu.Unlock()
	if _, ok := n.listeners[a]; ok {
		return nil, fmt.Errorf("listen tcp %s: bind: address already in use", a)
	}
	l := &Listener{n: n, a: a}
	l.cond = sync.NewCond(&l.mu)
	n.listeners[a] = l
	return l, nil
}

func (l *Listener) Accept() (net.Conn, error) {
	l.mu.Lock()
	defer l.mu.Unlock()
	for len(l.queue) == 0 && !l.closed {
		l.cond.Wait()
	}
	if l.closed {
		return nil, errors.New("use of closed network connection")
	}
	c := l.queue[0]
	l.queue = l.queue[1:]
	return c, nil
}

func (l *Listener) Close() error {
	l.n.mu.Lock()
	if l.n.listeners[l.a] == l {
		delete(l.n.listeners, l.a)
	}
	l.n.mu.Unlock()
	l.mu.Lock()
	l.closed = true
	q := l.queue
	l.queue = nil
	l.cond.Broadcast()
	l.mu.Unlock()
	for _, c := range q {
		c.Close()
	}
	return nil
}

func (l *Listener) Addr() net.Addr { return addr(l.a) }

type timeoutErr struct{ op string }

func (e timeoutErr) Error() string   { return e.op + ": i/o timeout" }
func (e timeoutErr) Timeout() bool   { return true }
func (e timeoutErr) Temporary() bool { return true }
func (e timeoutErr) Is(target error) bool {
	return target == os.ErrDeadlineExceeded
}

var debug = os.Getenv("SIMNET_DEBUG") != ""

var errReset = errors.New("read: connection reset by peer")
var errClosed = errors.New("use of closed network connection")

// half is one direction of a connection.
type half struct {
	mu       sync.Mutex
	cond     *sync.Cond
	buf      []byte
	eof      bool  // writer closed cleanly
	err      error // reset
	rclosed  bool  // reader closed its end
	deadline time.Time
	dtimer   *time.Timer
	sent     int64
	stamps   []stampRun // parallel to buf: which request turn the bytes belong to
}

// stampRun says that the next n bytes of a half's buffer carry stamp seq: for
// client->server bytes the client's request turn (it advances with every
// write that follows a read), for server->client bytes the highest request
// turn the server had read when it wrote them.
type stampRun struct {
	n   int
	seq int64
}

func newHalf() *half {
	h := &half{}
	h.cond = sync.NewCond(&h.mu)
	return h
}

type chunk struct {
	p   []byte
	seq int64
}

type conn struct {
	n        *Net
	rd, wr   *half // rd: peer->me, wr: me->peer
	local    addr
	remote   addr
	pol      *Policy
	isClient bool
	peer     *conn
	wmu      sync.Mutex
	inflight []chunk
	wdl      time.Time
	// request/response bookkeeping for OnStaleReply
	turn           int64 // client: current request turn
	readSinceWrite bool  // client: a Read was made since the last Write
	seen           int64 // server: highest client turn read so far
	staleReported  bool
	closeMu  sync.Mutex
	closed   bool
}

// Dial connects to a listener on the network.
func (n *Net) Dial(a string, timeout time.Duration) (net.Conn, error) {
	n.mu.Lock()
	l := n.listeners[a]
	k := n.seq[a]
	n.seq[a] = k + 1
	n.Dials++
	pol := NoFault
	if n.PolicyFor != nil {
		pol = n.PolicyFor(a, k)
	}
	n.mu.Unlock()
	if pol.DialDelay > 0 {
		if timeout > 0 && pol.DialDelay >= timeout {
			time.Sleep(timeout)
			n.fault("dial-timeout")
			return nil, &net.OpError{Op: "dial", Net: "tcp", Addr: addr(a), Err: timeoutErr{"dial"}}
		}
		time.Sleep(pol.DialDelay)
	}
	if l == nil || pol.Refuse {
		if pol.Refuse {
			n.fault("refuse")
		}
		return nil, &net.OpError{Op: "dial", Net: "tcp", Addr: addr(a), Err: errors.New("connect: connection refused")}
	}
	c2s, s2c := newHalf(), newHalf()
	p := pol
	client := &conn{n: n, rd: s2c, wr: c2s, local: addr("client"), remote: addr(a), pol: &p, isClient: true}
	server := &conn{n: n, rd: c2s, wr: s2c, local: addr(a), remote: addr("client"), pol: &p}
	client.peer, server.peer = server, client
	l.mu.Lock()
	if l.closed {
		l.mu.Unlock()
		return nil, &net.OpError{Op: "dial", Net: "tcp", Addr: addr(a), Err: errors.New("connect: connection refused")}
	}
	l.queue = append(l.queue, server)
	l.cond.Signal()
	l.mu.Unlock()
	n.mu.Lock()
	n.live = append(n.live, client)
	n.mu.Unlock()
	return client, nil
}

// ResetWhere resets (both directions) every established connection whose
// destination address satisfies match; it returns how many it reset.
func (n *Net) ResetWhere(match func(remote string) bool) int {
	n.mu.Lock()
	var hit, keep []*conn
	for _, c := range n.live {
		c.closeMu.Lock()
		closed := c.closed
		c.closeMu.Unlock()
		if closed {
			continue
		}
		if match(string(c.remote)) {
			hit = append(hit, c)
		} else {
			keep = append(keep, c)
		}
	}
	n.live = keep
	n.mu.Unlock()
	for _, c := range hit {
		for _, h := range []*half{c.rd, c.wr} {
			h.mu.Lock()
			if h.err == nil {
				h.err = errReset
			}
			h.cond.Broadcast()
			h.mu.Unlock()
		}
	}
	return len(hit)
}

// Pipe returns the two ends of a connection with the given policy without
// going through a listener (client end first).
func (n *Net) Pipe(pol Policy) (net.Conn, net.Conn) {
	c2s, s2c := newHalf(), newHalf()
	p := pol
	client := &conn{n: n, rd: s2c, wr: c2s, local: addr("client"), remote: addr("pipe"), pol: &p, isClient: true}
	server := &conn{n: n, rd: c2s, wr: s2c, local: addr("pipe"), remote: addr("client"), pol: &p}
	client.peer, server.peer = server, client
	return client, server
}

func (c *conn) Read(b []byte) (int, error) {
	h := c.rd
	h.mu.Lock()
	defer h.mu.Unlock()
	if c.isClient {
		c.readSinceWrite = true
	}
	for {
		if h.rclosed {
			return 0, errClosed
		}
		if len(h.buf) > 0 {
			n := copy(b, h.buf)
			h.buf = h.buf[n:]
			c.consumeStamps(h, n)
			return n, nil
		}
		if h.err != nil {
			if debug {
				fmt.Fprintf(os.Stderr, "simnet: read %s<-%s client=%v: %v\n", c.local, c.remote, c.isClient, h.err)
			}
			return 0, h.err
		}
		if h.eof {
			if debug {
				fmt.Fprintf(os.Stderr, "simnet: read %s<-%s client=%v: EOF\n", c.local, c.remote, c.isClient)
			}
			return 0, io.EOF
		}
		if !h.deadline.IsZero() && !time.Now().Before(h.deadline) {
			return 0, &net.OpError{Op: "read", Net: "tcp", Err: timeoutErr{"read"}}
		}
		h.cond.Wait()
	}
}

// deliver appends data to the direction's buffer, applying the reset/close
// byte budgets of the policy.
// consumeStamps accounts for n bytes just read from h (h.mu held).
func (c *conn) consumeStamps(h *half, n int) {
	for n > 0 && len(h.stamps) > 0 {
		r := &h.stamps[0]
		k := r.n
		if k > n {
			k = n
		}
		if c.isClient {
			if r.seq > 0 && r.seq < c.turn && !c.staleReported && c.n.OnStaleReply != nil {
				c.staleReported = true
				c.n.OnStaleReply(fmt.Sprintf("connection %s -> %s: the client is in its request turn %d and read bytes the peer had sent when it had only seen turn %d: the late answer to an earlier request is taken for the answer to the current one", c.local, c.remote, c.turn, r.seq))
			}
		} else if r.seq > c.seen {
			c.seen = r.seq
		}
		r.n -= k
		n -= k
		if r.n == 0 {
			h.stamps = h.stamps[1:]
		}
	}
}

func (c *conn) deliver(data []byte, seq int64) {
	h := c.wr
	h.mu.Lock()
	defer h.mu.Unlock()
	if h.err != nil || h.eof {
		return
	}
	limit, clean := int64(-1), false
	if c.isClient {
		limit = c.pol.ResetC2S
	} else {
		limit = c.pol.ResetS2C
		if c.pol.CloseS2C >= 0 && (limit < 0 || c.pol.CloseS2C < limit) {
			limit, clean = c.pol.CloseS2C, true
		}
	}
	if limit >= 0 && h.sent+int64(len(data)) >= limit {
		keep := limit - h.sent
		if keep < 0 {
			keep = 0
		}
		h.buf = append(h.buf, data[:keep]...)
		if keep > 0 {
			h.stamps = append(h.stamps, stampRun{int(keep), seq})
		}
		h.sent += keep
		if clean {
			h.eof = true
			c.n.fault("close-mid-stream")
		} else {
			h.err = errReset
			c.n.fault("reset-mid-stream")
			// the other direction dies as well
			o := c.rd
			o.mu.Lock()
			if o.err == nil {
				o.err = errReset
			}
			o.cond.Broadcast()
			o.mu.Unlock()
		}
		h.cond.Broadcast()
		return
	}
	h.buf = append(h.buf, data...)
	if len(data) > 0 {
		h.stamps = append(h.stamps, stampRun{len(data), seq})
	}
	h.sent += int64(len(data))
	h.cond.Broadcast()
}

func (c *conn) Write(b []byte) (int, error) {
	c.closeMu.Lock()
	closed := c.closed
	c.closeMu.Unlock()
	if closed {
		return 0, errClosed
	}
	h := c.wr
	h.mu.Lock()
	if h.err != nil {
		h.mu.Unlock()
		return 0, errors.New("write: connection reset by peer")
	}
	if h.rclosed {
		h.mu.Unlock()
		return 0, errors.New("write: broken pipe")
	}
	h.mu.Unlock()
	if c.isClient && c.pol.Stall {
		c.n.fault("stall")
		return len(b), nil
	}
	data := append([]byte(nil), b...)
	frag := c.pol.Fragment
	// the request turn these bytes belong to (see stampRun)
	var seq int64
	if c.isClient {
		rh := c.rd
		rh.mu.Lock()
		if c.turn == 0 || c.readSinceWrite {
			c.turn++
			c.readSinceWrite = false
		}
		seq = c.turn
		rh.mu.Unlock()
	} else {
		rh := c.rd
		rh.mu.Lock()
		seq = c.seen
		rh.mu.Unlock()
	}
	send := func(p []byte) {
		if c.pol.Latency > 0 {
			// Timers that expire at the same instant fire in no particular
			// order; a byte stream must stay FIFO. Every expiry therefore
			// delivers the oldest chunk still in flight.
			c.wmu.Lock()
			c.inflight = append(c.inflight, chunk{p, seq})
			c.wmu.Unlock()
			time.AfterFunc(c.pol.Latency, func() {
				// pop and deliver under one lock: two expiries at the same
				// instant run as two goroutines
				c.wmu.Lock()
				head := c.inflight[0]
				c.inflight = c.inflight[1:]
				c.deliver(head.p, head.seq)
				c.wmu.Unlock()
			})
		} else {
			c.deliver(p, seq)
		}
	}
	if frag > 0 {
		for len(data) > frag {
			send(data[:frag])
			data = data[frag:]
		}
	}
	send(data)
	return len(b), nil
}

func (c *conn) Close() error {
	c.closeMu.Lock()
	if c.closed {
		c.closeMu.Unlock()
		return nil
	}
	c.closed = true
	c.closeMu.Unlock()
	// my reading end
	c.rd.mu.Lock()
	c.rd.rclosed = true
	c.rd.cond.Broadcast()
	c.rd.mu.Unlock()
	// my writing end: the peer reads EOF after what is already in flight
	finish := func() {
		c.wr.mu.Lock()
		c.wr.eof = true
		c.wr.cond.Broadcast()
		c.wr.mu.Unlock()
	}
	if c.pol.Latency > 0 {
		var wait func()
		wait = func() {
			c.wmu.Lock()
			n := len(c.inflight)
			c.wmu.Unlock()
			if n > 0 {
				time.AfterFunc(c.pol.Latency, wait)
				return
			}
			finish()
		}
		time.AfterFunc(c.pol.Latency, wait)
	} else {
		finish()
	}
	return nil
}

func (c *conn) LocalAddr() net.Addr  { return c.local }
func (c *conn) RemoteAddr() net.Addr { return c.remote }

func (c *conn) SetDeadline(t time.Time) error {
	c.SetReadDeadline(t)
	return c.SetWriteDeadline(t)
}

func (c *conn) SetReadDeadline(t time.Time) error {
	h := c.rd
	h.mu.Lock()
	defer h.mu.Unlock()
	h.deadline = t
	if h.dtimer != nil {
		h.dtimer.Stop()
		h.dtimer = nil
	}
	if !t.IsZero() {
		d := time.Until(t)
		if d < 0 {
			d = 0
		}
		h.dtimer = time.AfterFunc(d, func() {
			h.mu.Lock()
			h.cond.Broadcast()
			h.mu.Unlock()
		})
	}
	h.cond.Broadcast()
	return nil
}

func (c *conn) SetWriteDeadline(t time.Time) error { return nil } // writes never block

// Hook returns functions suitable for verifhook.SetDial / SetListen.
func (n *Net) DialHook() func(network, address string, timeout time.Duration) (net.Conn, error, bool) {
	return func(network, address string, timeout time.Duration) (net.Conn, error, bool) {
		c, err := n.Dial(address, timeout)
		return c, err, true
	}
}
