// Package core is the shared machinery of the deterministic simulator: the
// run context (event log, fault and probe counters, verdict), the search loop
// on top of pgregory.net/rapid (one seed decides everything, failures are
// shrunk and written as replay files), known-finding handling, per-worker
// result files and the stall watchdog.
package core

import (
	"crypto/sha256"
	"encoding/hex"
	"encoding/json"
	"flag"
	"fmt"
	"hash/fnv"
	"os"
	"path/filepath"
	"regexp"
	"runtime"
	"runtime/debug"
	"sort"
	"strconv"
	"strings"
	"sync"
	"sync/atomic"
	"testing"
	"testing/synctest"
	"time"

	"pgregory.net/rapid"
)

// Violation is a broken invariant found by an oracle.
type Violation struct {
	// Class is the stable identifier of the violated invariant, e.g.
	// "acked-point-missing-after-crash". Shrinking keeps the class fixed and
	// known findings are matched on it (plus Site).
	Class string `json:"class"`
	// Site narrows the class to a call site / minimal history shape where
	// the harness can determine one. May be empty.
	Site string `json:"site,omitempty"`
	// Detail is free text: model vs observed.
	Detail string `json:"detail"`
}

func (v *Violation) Signature() string {
	if v.Site == "" {
		return v.Class
	}
	return v.Class + "@" + v.Site
}

// Run is the context of one simulated run.
type Run struct {
	mu         sync.Mutex
	events     []string
	Faults     map[string]int
	Probes     map[string]int
	OpKinds    []string
	SimTime    time.Duration
	Violation  *Violation
	NonTrivial bool
	// Digest is folded into the reach signature (final model digest etc).
	Digest  string
	Scratch string // per-run scratch directory (removed after the run)
	// known maps violation signatures listed in known_findings.json (status
	// "known") to their ids; a violation with such a signature is counted in
	// KnownSeen and the run goes on.
	known     map[string]string
	KnownSeen map[string]int
}

// Logf appends to the event log. It never draws and never reads a clock.
func (r *Run) Logf(format string, args ...interface{}) {
	r.mu.Lock()
	r.events = append(r.events, fmt.Sprintf(format, args...))
	r.mu.Unlock()
}

// Fault counts a fault at the moment it takes effect.
func (r *Run) Fault(kind string) {
	r.mu.Lock()
	r.Faults[kind]++
	r.mu.Unlock()
}

// Probe counts a reach probe.
func (r *Run) Probe(name string) {
	r.mu.Lock()
	r.Probes[name]++
	r.mu.Unlock()
}

// ProbeN adds n to a reach probe.
func (r *Run) ProbeN(name string, n int) {
	if n == 0 {
		return
	}
	r.mu.Lock()
	r.Probes[name] += n
	r.mu.Unlock()
}

// Op records an operation kind (for the reach signature).
func (r *Run) Op(kind string) {
	r.mu.Lock()
	r.OpKinds = append(r.OpKinds, kind)
	r.mu.Unlock()
}

// Fail records the first violation of the run and reports whether it counts:
// a violation whose signature is a listed known finding is only counted
// (KnownSeen) and the run continues, so that a different violation of the same
// property is still found.
func (r *Run) Fail(class, site, format string, args ...interface{}) bool {
	r.mu.Lock()
	defer r.mu.Unlock()
	if r.Violation != nil {
		return true
	}
	v := &Violation{Class: class, Site: site, Detail: fmt.Sprintf(format, args...)}
	if id, ok := r.known[v.Signature()]; ok {
		if r.KnownSeen == nil {
			r.KnownSeen = map[string]int{}
		}
		r.KnownSeen[id]++
		r.events = append(r.events, "KNOWN-FINDING "+v.Signature()+": "+v.Detail)
		return false
	}
	r.Violation = v
	r.events = append(r.events, "VIOLATION "+v.Signature()+": "+v.Detail)
	return true
}

// Failed reports whether a violation has been recorded.
func (r *Run) Failed() bool {
	r.mu.Lock()
	defer r.mu.Unlock()
	return r.Violation != nil
}

// Events returns a copy of the event log.
func (r *Run) Events() []string {
	r.mu.Lock()
	defer r.mu.Unlock()
	return append([]string(nil), r.events...)
}

func (r *Run) eventHash() string {
	h := sha256.New()
	for _, e := range r.events {
		h.Write([]byte(e))
		h.Write([]byte{'\n'})
	}
	return hex.EncodeToString(h.Sum(nil))[:16]
}

func (r *Run) signature() uint64 {
	h := fnv.New64a()
	ops := append([]string(nil), r.OpKinds...)
	sort.Strings(ops)
	for _, o := range ops {
		h.Write([]byte(o))
		h.Write([]byte{0})
	}
	for _, m := range []map[string]int{r.Faults, r.Probes} {
		ks := make([]string, 0, len(m))
		for k := range m {
			ks = append(ks, k)
		}
		sort.Strings(ks)
		for _, k := range ks {
			h.Write([]byte(k))
			h.Write([]byte{1})
		}
		h.Write([]byte{2})
	}
	h.Write([]byte(r.Digest))
	return h.Sum64()
}

// Harness describes one property's simulated run.
type Harness struct {
	Property string
	// Gen draws the complete plan of a run. All randomness of a run comes
	// from here; it is called outside any bubble.
	Gen func(t *rapid.T) interface{}
	// Exec executes the plan against the real code and records the verdict in
	// run. With Bubble set it runs inside a testing/synctest bubble.
	Exec   func(run *Run, plan interface{})
	Bubble bool
	// Warmup is executed once per process outside any bubble.
	Warmup func()
	// Describe renders a plan for traces and samples (JSON-marshalable).
	Describe func(plan interface{}) interface{}
	// RequiredProbes must be non-zero at the end of a thorough-tier worker
	// (summed by the driver over all workers).
	RequiredProbes []string
	// Real / Stub component lists for evidence.
	Real, Stub  []string
	Assumptions []string
	Rule        string
	Tier        string // determinism tier "A" or "B"
}

// KnownFinding is an entry of /verif/known_findings.json.
type KnownFinding struct {
	Property  string `json:"property"`
	ID        string `json:"id"`
	Signature string `json:"signature"`
	Status    string `json:"status"` // "known" | "fixed"
	Commit    string `json:"commit,omitempty"`
	WhatFails string `json:"what_fails"`
}

// Result is what a worker process writes for the driver.
type Result struct {
	Property     string                 `json:"property"`
	Seed         uint64                 `json:"seed"`
	Runs         int                    `json:"runs"`
	NonTrivial   int                    `json:"nontrivial_runs"`
	Faults       map[string]int         `json:"faults"`
	Probes       map[string]int         `json:"probes"`
	SimTimeS     float64                `json:"sim_time_s"`
	WallS        float64                `json:"wall_s"`
	Violations   []ViolationReport      `json:"violations"`
	KnownSeen    map[string]int         `json:"known_seen"`
	Leaked       int                    `json:"leaked_bubbles"`
	Samples      []interface{}          `json:"samples"`
	Real         []string               `json:"real_components"`
	Stub         []string               `json:"stubbed_components"`
	Assumptions  []string               `json:"assumptions"`
	Rule         string                 `json:"rule"`
	Tier         string                 `json:"determinism_tier"`
	Required     []string               `json:"required_probes"`
	Stalled      bool                   `json:"stalled"`
	Extra        map[string]interface{} `json:"extra,omitempty"`
	ReplayResult string                 `json:"replay_result,omitempty"`
}

// ViolationReport is one reported violation with its replay directory.
type ViolationReport struct {
	Violation
	Replay string `json:"replay"`
	Known  string `json:"known,omitempty"`
}

type captureTB struct {
	*testing.T
	mu     sync.Mutex
	failed bool
	msgs   []string
}

func (c *captureTB) Errorf(format string, args ...any) {
	c.mu.Lock()
	c.failed = true
	c.msgs = append(c.msgs, fmt.Sprintf(format, args...))
	c.mu.Unlock()
}
func (c *captureTB) Error(args ...any)                 { c.Errorf("%s", fmt.Sprint(args...)) }
func (c *captureTB) Fatalf(format string, args ...any) { c.Errorf(format, args...); panic(stopCheck{}) }
func (c *captureTB) Fatal(args ...any)                 { c.Errorf("%s", fmt.Sprint(args...)); panic(stopCheck{}) }
func (c *captureTB) FailNow()                          { c.mu.Lock(); c.failed = true; c.mu.Unlock(); panic(stopCheck{}) }
func (c *captureTB) Fail()                             { c.mu.Lock(); c.failed = true; c.mu.Unlock() }
func (c *captureTB) Failed() bool                      { c.mu.Lock(); defer c.mu.Unlock(); return c.failed }
func (c *captureTB) Logf(format string, args ...any)   {}
func (c *captureTB) Log(args ...any)                   {}

type stopCheck struct{}

func envInt(name string, def int64) int64 {
	if v := os.Getenv(name); v != "" {
		if n, err := strconv.ParseInt(v, 10, 64); err == nil {
			return n
		}
	}
	return def
}

// ScratchRoot returns the per-process scratch directory root.
func ScratchRoot() string {
	root := os.Getenv("VERIF_SCRATCH")
	if root == "" {
		if st, err := os.Stat("/dev/shm"); err == nil && st.IsDir() {
			root = "/dev/shm"
		} else {
			root = os.TempDir()
		}
	}
	d := filepath.Join(root, fmt.Sprintf("verif.%d", os.Getpid()))
	os.MkdirAll(d, 0o777)
	return d
}

var progress atomic.Int64

// Progress must be called by long harness loops so that the stall watchdog
// can tell a slow run from a stuck one.
func Progress() { progress.Add(1) }

// LoadKnown loads known findings for a property.
func LoadKnown(property string) []KnownFinding {
	path := os.Getenv("VERIF_KNOWN")
	if path == "" {
		path = "/verif/known_findings.json"
	}
	b, err := os.ReadFile(path)
	if err != nil {
		return nil
	}
	var all []KnownFinding
	if err := json.Unmarshal(b, &all); err != nil {
		fmt.Fprintf(os.Stderr, "known_findings.json unreadable: %v\n", err)
		os.Exit(2)
	}
	var out []KnownFinding
	for _, k := range all {
		if k.Property == property && k.Status == "known" {
			out = append(out, k)
		}
	}
	return out
}

// Main runs the search loop of a harness inside a Go test.
//
// Environment: VERIF_SEED, VERIF_RUNS (number of simulated runs),
// VERIF_BUDGET_S (wall-clock cap), VERIF_OUT (directory for result.json and
// runlog.txt), VERIF_REPLAY (a replay directory: re-execute instead of search),
// VERIF_REPLAYS_DIR (where replay directories are written).
func Main(t *testing.T, h Harness) {
	seed := uint64(envInt("VERIF_SEED", 1))
	if seed == 0 {
		seed = 1
	}
	runs := int(envInt("VERIF_RUNS", 50))
	budget := time.Duration(envInt("VERIF_BUDGET_S", 600)) * time.Second
	outDir := os.Getenv("VERIF_OUT")
	if outDir == "" {
		outDir = t.TempDir()
	}
	os.MkdirAll(outDir, 0o777)
	replaysDir := os.Getenv("VERIF_REPLAYS_DIR")
	if replaysDir == "" {
		replaysDir = filepath.Join(outDir, "replays")
	}
	replay := os.Getenv("VERIF_REPLAY")
	knownSigs := map[string]string{}
	for _, k := range LoadKnown(h.Property) {
		knownSigs[k.Signature] = k.ID
	}

	scratch := ScratchRoot()
	defer os.RemoveAll(scratch)
	// rapid writes fail files relative to the working directory.
	if err := os.Chdir(scratch); err != nil {
		t.Fatalf("chdir scratch: %v", err)
	}

	res := &Result{
		Property: h.Property, Seed: seed,
		Faults: map[string]int{}, Probes: map[string]int{}, KnownSeen: map[string]int{},
		Real: h.Real, Stub: h.Stub, Assumptions: h.Assumptions, Rule: h.Rule, Tier: h.Tier,
		Required: h.RequiredProbes,
	}
	sigs := map[uint64]struct{}{}
	var runlog strings.Builder
	start := time.Now()

	writeResult := func() {
		res.WallS = time.Since(start).Seconds()
		b, _ := json.MarshalIndent(res, "", " ")
		os.WriteFile(filepath.Join(outDir, "result.json"), b, 0o666)
		os.WriteFile(filepath.Join(outDir, "runlog.txt"), []byte(runlog.String()), 0o666)
		sb := make([]byte, 0, len(sigs)*17)
		for s := range sigs {
			sb = append(sb, []byte(fmt.Sprintf("%016x\n", s))...)
		}
		os.WriteFile(filepath.Join(outDir, "sigs.txt"), sb, 0o666)
	}

	// Stall watchdog: real clock, outside any bubble.
	stallLimit := time.Duration(envInt("VERIF_STALL_S", 120)) * time.Second
	done := make(chan struct{})
	defer close(done)
	go func() {
		last := progress.Load()
		lastChange := time.Now()
		tk := time.NewTicker(time.Second)
		defer tk.Stop()
		for {
			select {
			case <-done:
				return
			case <-tk.C:
				if p := progress.Load(); p != last {
					last, lastChange = p, time.Now()
				} else if time.Since(lastChange) > stallLimit {
					res.Stalled = true
					fmt.Fprintf(os.Stderr, "WATCHDOG: no progress for %v; goroutine dump follows\n", stallLimit)
					debug.SetTraceback("all")
					writeResult()
					buf := make([]byte, 1<<20)
					n := runtimeStack(buf)
					os.Stderr.Write(buf[:n])
					os.Exit(3)
				}
			}
		}
	}()

	if h.Warmup != nil {
		h.Warmup()
	}

	var (
		searching   = true
		targetClass string
		lastFail    *failRecord
		runIndex    int
	)

	execOnce := func(plan interface{}) *Run {
		run := &Run{Faults: map[string]int{}, Probes: map[string]int{}, known: knownSigs}
		run.Scratch = filepath.Join(scratch, fmt.Sprintf("run%d", progress.Add(1)))
		os.MkdirAll(run.Scratch, 0o777)
		defer os.RemoveAll(run.Scratch)
		if h.Bubble {
			leaked := runInBubble(t, func() { h.Exec(run, plan) }, run)
			if leaked {
				res.Leaked++
			}
		} else {
			func() {
				defer func() {
					if r := recover(); r != nil {
						run.Fail("panic", "", "panic in run: %v\n%s", r, debug.Stack())
					}
				}()
				h.Exec(run, plan)
			}()
		}
		return run
	}

	prop := func(rt *rapid.T) {
		plan := h.Gen(rt)
		run := execOnce(plan)
		Progress()
		if searching {
			runIndex++
			res.Runs++
			for k, v := range run.Faults {
				res.Faults[k] += v
			}
			for k, v := range run.Probes {
				res.Probes[k] += v
			}
			res.SimTimeS += run.SimTime.Seconds()
			if run.NonTrivial {
				res.NonTrivial++
				sigs[run.signature()] = struct{}{}
			}
			fmt.Fprintf(&runlog, "%d %s %s\n", runIndex, run.eventHash(), verdictOf(run))
			if d := os.Getenv("VERIF_DUMP_EVENTS"); d != "" {
				os.WriteFile(filepath.Join(d, fmt.Sprintf("events-%d.txt", runIndex)), []byte(strings.Join(run.Events(), "\n")), 0o666)
			}
			if len(res.Samples) < 3 && h.Describe != nil && (run.NonTrivial || runIndex > 20) {
				ev := run.Events()
				if len(ev) > 60 {
					ev = append(ev[:60:60], fmt.Sprintf("... (%d more events)", len(ev)-60))
				}
				res.Samples = append(res.Samples, map[string]interface{}{"plan": h.Describe(plan), "events": ev})
			}
		}
		if searching {
			for id, n := range run.KnownSeen {
				res.KnownSeen[id] += n
			}
		}
		v := run.Violation
		if v == nil {
			return
		}
		if targetClass == "" {
			targetClass = v.Signature()
			searching = false
		} else if v.Signature() != targetClass {
			return // shrinking must not slide to another violation class
		}
		lastFail = &failRecord{plan: plan, run: run}
		rt.Fatalf("%s", targetClass)
	}

	finishViolation := func(tb *captureTB) {
		v := lastFail.run.Violation
		msg := strings.Join(tb.msgs, "\n")
		failfile := ""
		if m := regexp.MustCompile(`-rapid\.failfile="([^"]+)"`).FindStringSubmatch(msg); m != nil {
			failfile = m[1]
		}
		sum := sha256.Sum256([]byte(v.Signature() + fmt.Sprint(h.describe(lastFail.plan))))
		dir := filepath.Join(replaysDir, h.Property, hex.EncodeToString(sum[:])[:12])
		os.MkdirAll(dir, 0o777)
		if failfile != "" {
			if b, err := os.ReadFile(failfile); err == nil {
				os.WriteFile(filepath.Join(dir, "rapid.fail"), b, 0o666)
			}
		}
		trace := map[string]interface{}{
			"property":   h.Property,
			"seed":       seed,
			"violation":  v,
			"plan":       h.describe(lastFail.plan),
			"events":     lastFail.run.Events(),
			"event_hash": lastFail.run.eventHash(),
			"rapid":      msg,
		}
		b, _ := json.MarshalIndent(trace, "", " ")
		os.WriteFile(filepath.Join(dir, "trace.json"), b, 0o666)
		res.Violations = append(res.Violations, ViolationReport{Violation: *v, Replay: dir})
	}

	if replay != "" {
		tb := &captureTB{T: t}
		flag.Set("rapid.failfile", filepath.Join(replay, "rapid.fail"))
		flag.Set("rapid.checks", "1")
		flag.Set("rapid.nofailfile", "true")
		runCheck(tb, prop)
		if lastFail != nil {
			res.ReplayResult = "reproduced: " + lastFail.run.Violation.Signature() + " event_hash=" + lastFail.run.eventHash()
			res.Violations = append(res.Violations, ViolationReport{Violation: *lastFail.run.Violation, Replay: replay})
		} else {
			res.ReplayResult = "not reproduced"
		}
		writeResult()
		return
	}

	flag.Set("rapid.shrinktime", os.Getenv("VERIF_SHRINK_TIME"))
	if os.Getenv("VERIF_SHRINK_TIME") == "" {
		flag.Set("rapid.shrinktime", "90s")
	}
	batch := 0
	for res.Runs < runs && time.Since(start) < budget {
		n := runs - res.Runs
		if n > 25 {
			n = 25
		}
		tb := &captureTB{T: t}
		flag.Set("rapid.seed", strconv.FormatUint(seed*7919+uint64(batch)*104729+1, 10))
		flag.Set("rapid.checks", strconv.Itoa(n))
		batch++
		runCheck(tb, prop)
		if lastFail != nil {
			finishViolation(tb)
			break
		}
		if tb.Failed() {
			// rapid itself complained (e.g. could not generate valid data).
			res.Extra = map[string]interface{}{"rapid_error": strings.Join(tb.msgs, "\n")}
			writeResult()
			fmt.Fprintf(os.Stderr, "rapid error: %s\n", strings.Join(tb.msgs, "\n"))
			os.Exit(2)
		}
	}
	writeResult()
}

func (h Harness) describe(plan interface{}) interface{} {
	if h.Describe != nil {
		return h.Describe(plan)
	}
	return fmt.Sprintf("%+v", plan)
}

type failRecord struct {
	plan interface{}
	run  *Run
}

func verdictOf(r *Run) string {
	if r.Violation != nil {
		return "FAIL:" + r.Violation.Signature()
	}
	return "ok"
}

func runCheck(tb *captureTB, prop func(*rapid.T)) {
	defer func() {
		if r := recover(); r != nil {
			if _, ok := r.(stopCheck); ok {
				return
			}
			tb.Errorf("panic out of rapid.Check: %v", r)
		}
	}()
	rapid.Check(tb, prop)
}

// runInBubble executes f inside a synctest bubble. A panic inside f becomes a
// violation; the "goroutines remain" deadlock panic raised at the end of a
// bubble is recovered after the verdict is recorded and reported as leaked.
func runInBubble(t *testing.T, f func(), run *Run) (leaked bool) {
	finished := false
	func() {
		defer func() {
			if r := recover(); r != nil {
				if finished {
					leaked = true
					return
				}
				// a deadlock of the bubble leaves its goroutines parked: their
				// stacks say who waits for whom
				buf := make([]byte, 1<<20)
				buf = buf[:runtime.Stack(buf, true)]
				// only the goroutines of this run's bubble (the newest one);
				// bubbles of earlier runs may have left parked goroutines behind
				all := strings.Split(string(buf), "\n\n")
				newest := -1
				bubbleOf := func(g string) int {
					i := strings.Index(g, "synctest bubble ")
					if i < 0 {
						return -1
					}
					n := 0
					fmt.Sscanf(g[i+len("synctest bubble "):], "%d", &n)
					return n
				}
				for _, g := range all {
					if b := bubbleOf(g); b > newest {
						newest = b
					}
				}
				var keep []string
				for _, g := range all {
					if bubbleOf(g) == newest {
						keep = append(keep, g)
					}
				}
				stacks := strings.Join(keep, "\n\n")
				if len(stacks) > 60000 {
					stacks = stacks[:60000]
				}
				run.Fail("panic", "", "panic escaped bubble: %v\n%s", r, stacks)
			}
		}()
		// synctest.Test ends the calling goroutine (t.FailNow) when the
		// bubble's test failed - which a race-detector report inside the
		// bubble makes it do. The harness turns such a report into a
		// violation itself and must live to write its result: the call is
		// made on a goroutine of its own, whose panic (the end-of-bubble
		// deadlock) is handed back to this one.
		done := make(chan struct{})
		var pv interface{}
		go func() {
			defer close(done)
			defer func() { pv = recover() }()
			synctest.Test(t, func(st *testing.T) {
				t0 := time.Now()
				func() {
					defer func() {
						if r := recover(); r != nil {
							run.Fail("panic", "", "panic in run: %v\n%s", r, debug.Stack())
						}
					}()
					f()
				}()
				run.SimTime = time.Since(t0)
				finished = true
			})
		}()
		<-done
		if pv != nil {
			panic(pv)
		}
	}()
	return leaked
}

func runtimeStack(buf []byte) int { return runtime.Stack(buf, true) }
