// C14 — series index always matches the data, for both index types.
package c14

import (
	"path/filepath"
	"testing"

	"pgregory.net/rapid"

	"verifsim/core"
	"verifsim/storesim"
)

var profile = storesim.Profile{
	Name: "C14", WWrite: 30, WBig: 1, WSnapshot: 6, WCompact: 4, WBurst: 2,
	WDelete: 10, WDropSeries: 10, WDropMeas: 6, WReopen: 8, WIndexCompact: 10, WRead: 1,
	CheckListing: true, CheckPreds: true, MaxOps: 40, MaxShards: 2,
}

func TestC14(t *testing.T) {
	core.Main(t, core.Harness{
		Property: "C14",
		Gen:      func(t *rapid.T) interface{} { return storesim.GenHPlan(t, &profile) },
		Exec: func(run *core.Run, pl interface{}) {
			h := &storesim.History{Run: run, Pr: &profile, Plan: pl.(*storesim.HPlan), Root: filepath.Join(run.Scratch, "store")}
			h.Exec()
			run.NonTrivial = run.Probes["delete-matched-series"]+run.Probes["tsi1-compact"]+run.Probes["reopen"] > 0
		},
		Bubble:         true,
		Warmup:         storesim.Warmup,
		Describe:       func(pl interface{}) interface{} { return storesim.DescribeHPlan(pl.(*storesim.HPlan)) },
		Tier:           "A",
		RequiredProbes: []string{"delete-matched-series", "tsi1-compact", "reopen"},
		Real:           []string{"tsdb.Store", "tsdb.Shard", "tsm1 engine (WAL, cache, compactor, file store, tombstoner, iterators, array cursors)", "series file", "inmem and tsi1 index", "real files on tmpfs"},
		Stub:           []string{"none; background tickers are off, the driver issues every snapshot and compaction through the engine's own entry points"},
		Assumptions:    []string{"SeriesCardinality of the inmem index is sketch-based (an estimate by design) and is not held to the model; tsi1 cardinality is", "observations are made at Wait()-quiescent points"},
		Rule:           "a run = seeded history of series creation, deletion, drop and re-creation, measurement drops, tsi1 log->index-file and level compactions (tiny log-file size, explicit Compact+Wait), data snapshots/compactions and reopen, on inmem or tsi1 (drawn) with 1-2 shards; after every step MeasurementNames, TagKeys, TagValues, SeriesCardinality (tsi1) and MeasurementSeriesByExprIterator under =, !=, =~, !~, AND, OR predicates must equal the model's series set; non-trivial = a delete matched data, an index compaction ran or the store was reopened",
	})
}
