package storesim

import (
	"bytes"
	"errors"
	"fmt"
	"math"
	"os"
	"path/filepath"
	"sort"
	"strings"

	"github.com/influxdata/influxdb/pkg/verifhook"
	"github.com/influxdata/influxdb/tsdb"
	"github.com/influxdata/influxdb/tsdb/index/tsi1"
	"pgregory.net/rapid"

	"verifsim/core"
	"verifsim/model"
)

// HOp is one step of a store history.
type HOp struct {
	Kind   string
	Shard  int
	Points []model.Point
	// Batches: a burst of (write batch, snapshot) pairs producing one TSM
	// generation each, so that the level planners have something to plan.
	Batches [][]model.Point
	CKind   CompactKind
	Pick    int
	From    int
	N       int
	Fast    bool
	Preds   []model.Tag
	Meas    string
	Min     int64
	Max     int64
	Read    ReadOpts
	// Window is executed while a snapshot is parked between writing its file
	// and installing it (snapshot ops only).
	Window *HOp
	// Fault selects an injected error for snapshot/compaction ops:
	// "" | "finishing" (observer rejects the new file) | "fsync" (tmp file
	// sync fails) | "abort" (compactions disabled part-way).
	Fault   string
	AbortAt int
	// NoRetry: a snapshot step that fails by injection is not retried at once
	NoRetry bool
}

// Profile selects the operation mix and the oracles of a history run.
type Profile struct {
	Name string
	// weights
	WWrite, WBig, WConflict, WRewrite, WSnapshot, WCompact, WCompactFiles, WDelete, WDropSeries, WDropMeas, WReopen, WRead, WIndexCompact, WBurst, WStagger int
	Windows                                                                                                                                                 bool // snapshot windows with an operation inside
	Faults                                                                                                                                                  bool // injected compaction/snapshot faults
	// oracles
	CheckReads   bool
	CheckListing bool
	CheckPreds   bool
	CheckFiles   bool
	MaxOps       int
	MaxShards    int
	BothIndexes  bool // run the same history on inmem and tsi1 and compare answers
}

// HPlan is a drawn history.
type HPlan struct {
	Index         string
	CompactorSize int
	MaxLogFile    int64
	NShards       int
	Ops           []HOp
}

func genDelete(t *rapid.T, label string, drop bool) HOp {
	m := Measurements[rapid.IntRange(0, 1).Draw(t, label+".m")]
	var preds []model.Tag
	if rapid.Bool().Draw(t, label+".pa") {
		preds = append(preds, model.Tag{K: "a", V: TagA[rapid.IntRange(1, 2).Draw(t, label+".av")]})
	}
	if rapid.IntRange(0, 2).Draw(t, label+".pb") == 0 {
		preds = append(preds, model.Tag{K: "b", V: TagB[rapid.IntRange(1, 2).Draw(t, label+".bv")]})
	}
	a, b := int64(math.MinInt64), int64(math.MaxInt64)
	if !drop {
		switch rapid.IntRange(0, 5).Draw(t, label+".rk") {
		case 0: // single instant
			a = GenTime(t, label+".at")
			b = a
		case 1: // open start
			b = GenTime(t, label+".max")
		case 2: // open end
			a = GenTime(t, label+".min")
		default:
			a = GenTime(t, label+".min")
			b = GenTime(t, label+".max")
			if a > b {
				a, b = b, a
			}
		}
	}
	kind := "delete"
	if drop {
		kind = "dropseries"
	}
	return HOp{Kind: kind, Meas: m, Preds: preds, Min: a, Max: b}
}

func genRead(t *rapid.T, label string) ReadOpts {
	ro := ReadOpts{Ascending: rapid.Bool().Draw(t, label+".asc")}
	switch rapid.IntRange(0, 3).Draw(t, label+".rk") {
	case 0:
		ro.Min, ro.Max = FullRange.Min, FullRange.Max
	default:
		a := GenTime(t, label+".min")
		b := GenTime(t, label+".max")
		if a > b {
			a, b = b, a
		}
		ro.Min, ro.Max = a, b
	}
	return ro
}

// GenHOp draws one operation according to the profile weights.
func GenHOp(t *rapid.T, pr *Profile, nshards int, label string, inWindow bool) HOp {
	type w struct {
		k string
		n int
	}
	ws := []w{{"write", pr.WWrite}, {"bigwrite", pr.WBig}, {"conflict", pr.WConflict}, {"rewrite", pr.WRewrite},
		{"delete", pr.WDelete}, {"dropseries", pr.WDropSeries}, {"dropmeas", pr.WDropMeas}, {"read", pr.WRead}}
	if !inWindow {
		ws = append(ws, w{"snapshot", pr.WSnapshot}, w{"compact", pr.WCompact}, w{"compactfiles", pr.WCompactFiles},
			w{"reopen", pr.WReopen}, w{"indexcompact", pr.WIndexCompact}, w{"burst", pr.WBurst}, w{"stagger", pr.WStagger})
	}
	total := 0
	for _, x := range ws {
		total += x.n
	}
	r := rapid.IntRange(0, total-1).Draw(t, label+".kind")
	kind := ""
	for _, x := range ws {
		if r < x.n {
			kind = x.k
			break
		}
		r -= x.n
	}
	shard := rapid.IntRange(0, nshards-1).Draw(t, label+".shard")
	switch kind {
	case "write":
		return HOp{Kind: kind, Shard: shard, Points: GenBatch(t, 8, label)}
	case "bigwrite":
		return HOp{Kind: kind, Shard: shard, Points: GenRun(t, label)}
	case "burst":
		n := rapid.IntRange(2, 9).Draw(t, label+".nb")
		o := HOp{Kind: kind, Shard: shard}
		for b := 0; b < n; b++ {
			o.Batches = append(o.Batches, GenBatch(t, 4, fmt.Sprintf("%s.b%d", label, b)))
		}
		return o
	case "stagger":
		// 2-4 generations of one series field that do not overlap in time
		// (each its own TSM file), a range delete that lies inside a later
		// generation only - its tombstone goes to that file alone -, then a
		// compaction of the files
		m := Measurements[rapid.IntRange(0, len(Measurements)-1).Draw(t, label+".m")]
		tags := GenTags(t, label+".tags")
		fd := Fields[rapid.IntRange(0, len(Fields)-1).Draw(t, label+".fd")]
		o := HOp{Kind: kind, Shard: shard, Meas: m, CKind: CompactKind(rapid.IntRange(0, 4).Draw(t, label+".ck")), Pick: rapid.IntRange(0, 3).Draw(t, label+".pick")}
		at := rapid.Int64Range(-30, 30).Draw(t, label+".base")
		ngen := rapid.IntRange(2, 4).Draw(t, label+".ngen")
		victim := rapid.IntRange(1, ngen-1).Draw(t, label+".victim")
		for g := 0; g < ngen; g++ {
			n := rapid.IntRange(1, 12).Draw(t, fmt.Sprintf("%s.n%d", label, g))
			var b []model.Point
			lo := at
			for j := 0; j < n; j++ {
				b = append(b, model.Point{M: m, Tags: tags, T: at, Fields: []model.FieldValue{{Name: fd.Name, V: GenValue(t, fd.K, fmt.Sprintf("%s.v%d.%d", label, g, j))}}})
				at += rapid.Int64Range(1, 3).Draw(t, fmt.Sprintf("%s.s%d.%d", label, g, j))
			}
			if g == victim {
				a := rapid.Int64Range(lo, at-1).Draw(t, label+".dmin")
				o.Min, o.Max = a, rapid.Int64Range(a, at-1).Draw(t, label+".dmax")
			}
			o.Batches = append(o.Batches, b)
			at += rapid.Int64Range(1, 5).Draw(t, fmt.Sprintf("%s.gap%d", label, g))
		}
		return o
	case "conflict":
		// a batch whose conflicting points are decided at run time from the model
		return HOp{Kind: kind, Shard: shard, Points: GenBatch(t, 6, label), Pick: rapid.IntRange(0, 1<<20).Draw(t, label+".cpick")}
	case "rewrite":
		return HOp{Kind: kind, Shard: shard, Pick: rapid.IntRange(0, 1<<20).Draw(t, label+".which")}
	case "snapshot":
		o := HOp{Kind: kind, Shard: shard}
		if pr.Windows && rapid.IntRange(0, 2).Draw(t, label+".win") > 0 {
			wop := GenHOp(t, pr, nshards, label+".w", true)
			wop.Shard = shard
			o.Window = &wop
		}
		if pr.Faults && rapid.IntRange(0, 5).Draw(t, label+".flt") == 0 {
			o.Fault = rapid.SampledFrom([]string{"finishing", "fsync"}).Draw(t, label+".fk")
			// half of the failed snapshots are not retried at once: the
			// cache keeps the snapshot while the history goes on (further
			// writes, deletes, reads) until a later snapshot step retries
			o.NoRetry = rapid.Bool().Draw(t, label+".noretry")
		}
		return o
	case "compact":
		o := HOp{Kind: kind, Shard: shard, CKind: CompactKind(rapid.IntRange(0, 4).Draw(t, label+".ck")), Pick: rapid.IntRange(0, 3).Draw(t, label+".pick")}
		if pr.Faults && rapid.IntRange(0, 4).Draw(t, label+".flt") == 0 {
			o.Fault = rapid.SampledFrom([]string{"finishing", "fsync", "abort"}).Draw(t, label+".fk")
			o.AbortAt = rapid.IntRange(0, 6).Draw(t, label+".abortat")
		}
		return o
	case "compactfiles":
		o := HOp{Kind: kind, Shard: shard, From: rapid.IntRange(0, 6).Draw(t, label+".from"), N: rapid.IntRange(2, 5).Draw(t, label+".n"), Fast: rapid.Bool().Draw(t, label+".fast")}
		if pr.Faults && rapid.IntRange(0, 4).Draw(t, label+".flt") == 0 {
			o.Fault = rapid.SampledFrom([]string{"finishing", "fsync", "abort"}).Draw(t, label+".fk")
			o.AbortAt = rapid.IntRange(0, 6).Draw(t, label+".abortat")
		}
		return o
	case "delete":
		return genDelete(t, label, false)
	case "dropseries":
		return genDelete(t, label, true)
	case "dropmeas":
		return HOp{Kind: kind, Meas: Measurements[rapid.IntRange(0, 1).Draw(t, label+".m")]}
	case "read":
		return HOp{Kind: kind, Shard: shard, Read: genRead(t, label)}
	case "reopen", "indexcompact":
		return HOp{Kind: kind}
	}
	panic("no kind")
}

// GenHPlan draws a history plan.
func GenHPlan(t *rapid.T, pr *Profile) *HPlan {
	p := &HPlan{}
	p.Index = rapid.SampledFrom([]string{"inmem", "tsi1"}).Draw(t, "index")
	p.CompactorSize = rapid.SampledFrom([]int{0, 2, 3, 7, 100, 1000}).Draw(t, "compactor_size")
	p.MaxLogFile = rapid.SampledFrom([]int64{0, 128, 512, 4096}).Draw(t, "max_log_file")
	max := pr.MaxShards
	if max < 1 {
		max = 1
	}
	p.NShards = rapid.IntRange(1, max).Draw(t, "nshards")
	n := rapid.IntRange(1, pr.MaxOps).Draw(t, "nops")
	for i := 0; i < n; i++ {
		p.Ops = append(p.Ops, GenHOp(t, pr, p.NShards, fmt.Sprintf("op%d", i), false))
	}
	return p
}

// DescribeHOp renders an op for traces.
func DescribeHOp(o HOp) string {
	switch o.Kind {
	case "write", "bigwrite", "conflict":
		s := fmt.Sprintf("%s(shard%d, %d points", o.Kind, o.Shard, len(o.Points))
		for i, pt := range o.Points {
			if i == 4 {
				s += " …"
				break
			}
			fs := fmt.Sprint(pt.Fields)
			if len(fs) > 70 {
				fs = fs[:70] + "…"
			}
			s += fmt.Sprintf(" %s@%d%s", model.SeriesKey(pt.M, pt.Tags), pt.T, fs)
		}
		return s + ")"
	case "burst":
		return fmt.Sprintf("burst(shard%d, %d x (write+snapshot))", o.Shard, len(o.Batches))
	case "stagger":
		return fmt.Sprintf("stagger(shard%d, %d disjoint generations of %s, delete [%d,%d], compact %s)", o.Shard, len(o.Batches), o.Meas, o.Min, o.Max, o.CKind)
	case "compact":
		return fmt.Sprintf("compact(shard%d,%s,%d,fault=%q@%d)", o.Shard, o.CKind, o.Pick, o.Fault, o.AbortAt)
	case "compactfiles":
		return fmt.Sprintf("compactfiles(shard%d,from=%d,n=%d,fast=%v,fault=%q@%d)", o.Shard, o.From, o.N, o.Fast, o.Fault, o.AbortAt)
	case "delete", "dropseries":
		return fmt.Sprintf("%s(%s where %q)", o.Kind, o.Meas, condOf(o))
	case "dropmeas":
		return "dropmeas(" + o.Meas + ")"
	case "read":
		return fmt.Sprintf("read(shard%d,[%d,%d],asc=%v)", o.Shard, o.Read.Min, o.Read.Max, o.Read.Ascending)
	case "snapshot":
		s := fmt.Sprintf("snapshot(shard%d,fault=%q", o.Shard, o.Fault)
		if o.Window != nil {
			s += ",window=" + DescribeHOp(*o.Window)
		}
		return s + ")"
	case "rewrite":
		return fmt.Sprintf("rewrite(shard%d,#%d)", o.Shard, o.Pick)
	}
	return o.Kind
}

// DescribeHPlan renders a plan.
func DescribeHPlan(p *HPlan) interface{} {
	var ops []string
	for _, o := range p.Ops {
		ops = append(ops, DescribeHOp(o))
	}
	return map[string]interface{}{"index": p.Index, "compactor_size": p.CompactorSize, "max_log_file": p.MaxLogFile, "nshards": p.NShards, "ops": ops}
}

func condOf(o HOp) string {
	var parts []string
	for _, t := range o.Preds {
		parts = append(parts, fmt.Sprintf("%s = '%s'", t.K, t.V))
	}
	if tc := TimeCond(o.Min, o.Max); tc != "" {
		parts = append(parts, tc)
	}
	return strings.Join(parts, " AND ")
}

// Matching returns the model's series of a measurement satisfying every tag
// predicate, and whether every predicate key is a tag key the measurement has.
func Matching(models []*model.Shard, meas string, preds []model.Tag) (keys []string, keysKnown bool) {
	have := map[string]bool{}
	set := map[string]bool{}
	for _, m := range models {
		for k, s := range m.Series {
			if s.M != meas {
				continue
			}
			ok := true
			tv := map[string]string{}
			for _, t := range s.Tags {
				tv[t.K] = t.V
				have[t.K] = true
			}
			for _, p := range preds {
				if tv[p.K] != p.V {
					ok = false
				}
			}
			if ok {
				set[k] = true
			}
		}
		for k := range m.MaybeListed {
			if name, tags := ParseSeriesKey(k); name == meas {
				for _, t := range tags {
					have[t.K] = true
				}
			}
		}
	}
	keysKnown = true
	for _, p := range preds {
		if !have[p.K] {
			keysKnown = false
		}
	}
	for k := range set {
		keys = append(keys, k)
	}
	sort.Strings(keys)
	return keys, keysKnown
}

// observer injects FileFinishing errors.
type observer struct {
	failNext *bool
	run      *core.Run
}

var errInjected = errors.New("injected I/O error")

func (o observer) FileFinishing(path string) error {
	if *o.failNext && (strings.HasSuffix(path, ".tsm.tmp") || strings.HasSuffix(path, ".tsm")) {
		*o.failNext = false
		o.run.Fault("eio-at-file-finishing")
		return errInjected
	}
	return nil
}
func (o observer) FileUnlinking(path string) error { return nil }

// History executes a plan against one real store and checks the profile's
// oracles after every step.
type History struct {
	Run    *core.Run
	Pr     *Profile
	Plan   *HPlan
	Sim    *Sim
	Models []*model.Shard // one per shard
	Root   string
	writes []struct {
		shard int
		pts   []model.Point
	}
	failFinishing bool
	failFsync     bool
	abortAfter    int // blocks until abort (-1 = off)
	window        *HOp
	inWindow      bool
	// deletes that ran while a snapshot was in flight: targets and range
	windowDeletes []windowDelete
	// Epilogue, when set, runs after the last operation on the still open
	// store (before the final restart checks).
	Epilogue func(h *History)
	// stop is set when a listed known finding made store and model diverge:
	// the rest of the run would only report its consequences.
	stop bool
}

type windowDelete struct {
	keys     map[string]bool
	min, max int64
}

// siteOf classifies a read mismatch: a point of a series that was the target
// of a delete issued while a cache snapshot was in flight, inside that
// delete's range, is attributed to that window.
func (h *History) siteOf(mm *Mismatch) string {
	if mm.Site != "" {
		return mm.Site
	}
	if mm.Key == "" {
		return ""
	}
	for _, wd := range h.windowDeletes {
		// Points inside the range may survive in the in-flight snapshot; points
		// outside it may become invisible because the index entry of the
		// series is dropped while its only data sits in that snapshot.
		if wd.keys[mm.Key] {
			return "delete-during-inflight-snapshot"
		}
	}
	return ""
}

// ShardID returns the store id of the i-th shard of the history.
func (h *History) ShardID(i int) uint64 { return uint64(i + 1) }

func (h *History) shardID(i int) uint64 { return uint64(i + 1) }

func (h *History) open() error {
	sim, err := Open(h.Root, Opts{Index: h.Plan.Index, CompactorSize: h.Plan.CompactorSize, MaxLogFile: h.Plan.MaxLogFile,
		Observer: observer{failNext: &h.failFinishing, run: h.Run}})
	if err != nil {
		return err
	}
	h.Sim = sim
	return nil
}

func (h *History) installHooks() {
	verifhook.SetYield(func(ev string, args ...interface{}) {
		switch ev {
		case "engine.snapshot.written":
			if h.window != nil && !h.inWindow {
				w := h.window
				h.window = nil
				h.inWindow = true
				h.Run.Probe("window-" + w.Kind)
				h.Run.Logf("  window: %s", DescribeHOp(*w))
				h.apply(-1, *w)
				h.check(-1, *w)
				h.inWindow = false
			}
		case "compactor.write.block":
			if h.abortAfter >= 0 {
				if h.abortAfter == 0 {
					h.abortAfter = -1
					h.Run.Fault("compaction-aborted")
					for _, id := range h.Sim.Shards {
						if e, err := h.Sim.Engine(id); err == nil {
							e.Compactor.DisableCompactions()
						}
					}
				} else {
					h.abortAfter--
				}
			}
		}
	})
	verifhook.SetFault(func(ev string, args ...interface{}) error {
		if ev == "tsm.fsync" && h.failFsync {
			h.failFsync = false
			h.Run.Fault("eio-at-tsm-fsync")
			return errInjected
		}
		return nil
	})
}

func (h *History) removeHooks() {
	verifhook.SetYield(nil)
	verifhook.SetFault(nil)
}

// FailNextFsync makes the next fsync of a new TSM file fail (for epilogues).
func (h *History) FailNextFsync() { h.failFsync = true }

// FsyncFaultPending tells whether the armed fsync fault has not fired yet.
func (h *History) FsyncFaultPending() bool { return h.failFsync }

// ClearFaults disarms pending faults.
func (h *History) ClearFaults() { h.failFinishing, h.failFsync = false, false }

// Exec runs the whole history.
func (h *History) Exec() {
	run := h.Run
	h.abortAfter = -1
	h.installHooks()
	defer h.removeHooks()
	if err := h.open(); err != nil {
		run.Fail("harness-error", "", "open: %v", err)
		return
	}
	defer func() {
		if h.Sim != nil {
			h.Sim.Close()
		}
	}()
	for i := 0; i < h.Plan.NShards; i++ {
		if err := h.Sim.CreateShard(h.shardID(i)); err != nil {
			run.Fail("harness-error", "", "CreateShard: %v", err)
			return
		}
		h.Models = append(h.Models, model.NewShard())
	}
	for i, o := range h.Plan.Ops {
		if run.Failed() {
			return
		}
		if h.stop {
			break
		}
		core.Progress()
		run.Op(o.Kind)
		run.Logf("op%d %s", i, DescribeHOp(o))
		h.apply(i, o)
		if run.Failed() {
			return
		}
		if !h.stop {
			h.check(i, o)
		}
	}
	if !run.Failed() && !h.stop && h.Epilogue != nil {
		h.Epilogue(h)
	}
	if !run.Failed() && !h.stop {
		h.finalChecks()
	}
	d := ""
	for _, m := range h.Models {
		d += m.Digest() + ";"
	}
	run.Digest = d
}

func (h *History) quiesceBackground() {
	// A delete re-enables level compactions on return, which starts the
	// engine's background compaction loop; stop it again so that the driver
	// stays the only source of compactions.
	for _, id := range h.Sim.Shards {
		if e, err := h.Sim.Engine(id); err == nil {
			e.SetCompactionsEnabled(false)
			e.Compactor.EnableSnapshots()
			e.Compactor.EnableCompactions()
		}
	}
}

func (h *History) armFault(o HOp) {
	switch o.Fault {
	case "finishing":
		h.failFinishing = true
	case "fsync":
		h.failFsync = true
	case "abort":
		h.abortAfter = o.AbortAt
	}
}

func (h *History) disarm() {
	h.failFinishing, h.failFsync, h.abortAfter = false, false, -1
}

func (h *History) apply(i int, o HOp) {
	run := h.Run
	sim := h.Sim
	id := h.shardID(o.Shard)
	m := h.Models[o.Shard]
	switch o.Kind {
	case "write", "bigwrite":
		if err := sim.Write(id, o.Points); err != nil {
			run.Fail("write-failed", "", "op%d: WriteToShard: %v", i, err)
			return
		}
		if rej := m.Write(o.Points); rej != 0 {
			run.Fail("harness-error", "", "model rejected %d points of a conflict-free batch", rej)
		}
		h.writes = append(h.writes, struct {
			shard int
			pts   []model.Point
		}{o.Shard, o.Points})
	case "burst":
		for _, b := range o.Batches {
			if err := sim.Write(id, b); err != nil {
				run.Fail("write-failed", "", "op%d: WriteToShard: %v", i, err)
				return
			}
			m.Write(b)
			if err := sim.Snapshot(id); err != nil {
				run.Fail("snapshot-failed", "", "op%d: WriteSnapshot: %v", i, err)
				return
			}
		}
	case "stagger":
		if m.Conflicts(o.Batches[0][0]) {
			run.Logf("op%d stagger skipped: the field exists with another type", i)
			return
		}
		h.apply(i, HOp{Kind: "burst", Shard: o.Shard, Batches: o.Batches})
		if run.Failed() || h.stop {
			return
		}
		h.apply(i, HOp{Kind: "delete", Shard: o.Shard, Meas: o.Meas, Min: o.Min, Max: o.Max})
		if run.Failed() || h.stop {
			return
		}
		run.Probe("delete-inside-later-generation")
		h.apply(i, HOp{Kind: "compact", Shard: o.Shard, CKind: o.CKind, Pick: o.Pick})
	case "rewrite":
		// re-write an earlier batch verbatim, if the model still accepts all of it unchanged
		if len(h.writes) == 0 {
			return
		}
		w := h.writes[o.Pick%len(h.writes)]
		before := h.Models[w.shard].Clone()
		if err := sim.Write(h.shardID(w.shard), w.pts); err != nil {
			run.Fail("write-failed", "", "op%d: re-write: %v", i, err)
			return
		}
		h.Models[w.shard].Write(w.pts)
		_ = before
		run.Probe("rewrite")
	case "conflict":
		// Turn some points into type-conflicting ones: a field name that
		// already holds data of another type in this shard's measurement.
		pts := append([]model.Point(nil), o.Points...)
		nconf := 0
		pick := o.Pick
		for pi := range pts {
			p := pts[pi]
			types := m.Types[p.M]
			if len(types) == 0 {
				continue
			}
			// only fields that currently have at least one point are certain to be typed in the shard
			var cands []string
			for fn := range types {
				if h.fieldHasData(m, p.M, fn) {
					cands = append(cands, fn)
				}
			}
			sort.Strings(cands)
			if len(cands) == 0 || pick%3 == 0 {
				pick /= 3
				continue
			}
			pick /= 3
			fn := cands[pick%len(cands)]
			var v model.Value
			if types[fn] == model.String {
				v = model.Value{K: model.Integer, I: 7}
			} else {
				v = model.Value{K: model.String, S: "conflict"}
			}
			np := model.Point{M: p.M, Tags: p.Tags, T: p.T}
			for _, f := range p.Fields {
				if f.Name != fn {
					np.Fields = append(np.Fields, f)
				}
			}
			np.Fields = append(np.Fields, model.FieldValue{Name: fn, V: v})
			pts[pi] = np
			nconf++
		}
		err := sim.Write(id, pts)
		rej := m.Write(pts)
		if rej != nconf {
			run.Fail("harness-error", "", "conflict op: model rejected %d, expected %d", rej, nconf)
			return
		}
		if nconf == 0 {
			if err != nil {
				run.Fail("write-failed", "", "op%d: WriteToShard: %v", i, err)
			}
			return
		}
		run.Probe("type-conflict-points")
		var pw tsdb.PartialWriteError
		if err == nil {
			run.Fail("conflict-not-reported", "", "op%d: batch with %d type-conflicting points was acknowledged without a partial-write error", i, nconf)
		} else if !errors.As(err, &pw) {
			if !strings.Contains(err.Error(), "partial write") {
				run.Fail("conflict-not-partial-write", "", "op%d: batch with %d conflicting of %d points failed with %T %v instead of a partial write", i, nconf, len(pts), err, err)
			}
		} else if pw.Dropped != nconf {
			run.Fail("conflict-dropped-count", "", "op%d: partial write reports dropped=%d, %d points conflicted", i, pw.Dropped, nconf)
		}
	case "snapshot":
		h.window = o.Window
		h.armFault(o)
		err := sim.Snapshot(id)
		injected := o.Fault != "" && (h.failFinishing == false && o.Fault == "finishing" || h.failFsync == false && o.Fault == "fsync")
		h.disarm()
		h.window = nil
		if err != nil {
			if injected {
				run.Probe("snapshot-failed-by-injection")
				if o.NoRetry {
					run.Probe("failed-snapshot-left-in-cache")
					return
				}
				// a retry must succeed and lose nothing
				if err := sim.Snapshot(id); err != nil {
					run.Fail("snapshot-retry-failed", "", "op%d: WriteSnapshot retry after injected error: %v", i, err)
				}
				return
			}
			run.Fail("snapshot-failed", "", "op%d: WriteSnapshot: %v", i, err)
		}
	case "compact":
		h.armFault(o)
		n, err := sim.Compact(id, o.CKind, o.Pick)
		h.disarm()
		if err != nil {
			run.Fail("harness-error", "", "compact: %v", err)
		}
		if n > 0 {
			run.Probe("compaction-" + o.CKind.String())
		}
		h.quiesceBackground()
	case "compactfiles":
		h.armFault(o)
		n, err := sim.CompactFiles(id, o.From, o.N, o.Fast)
		h.disarm()
		if err != nil {
			run.Fail("harness-error", "", "compactfiles: %v", err)
		}
		if n > 0 {
			run.Probe("compaction-arbitrary-group")
		}
		h.quiesceBackground()
	case "delete", "dropseries":
		keys, known := Matching(h.Models, o.Meas, o.Preds)
		err := sim.DeleteWhere([]string{o.Meas}, condOf(o))
		if !h.inWindow {
			h.quiesceBackground()
		}
		if err != nil {
			if !known && strings.Contains(err.Error(), "fields not supported in WHERE clause") {
				run.Probe("delete-rejected-unknown-tag")
				return
			}
			run.Fail("delete-failed", "", "op%d: DeleteSeries(%s where %s): %v", i, o.Meas, condOf(o), err)
			return
		}
		if h.inWindow && len(keys) > 0 {
			wd := windowDelete{keys: map[string]bool{}, min: o.Min, max: o.Max}
			for _, k := range keys {
				wd.keys[k] = true
			}
			h.windowDeletes = append(h.windowDeletes, wd)
		}
		for _, mm := range h.Models {
			if o.Kind == "dropseries" {
				mm.DropSeries(keys)
			} else {
				mm.DeleteRange(keys, o.Min, o.Max)
			}
		}
		if len(keys) > 0 {
			run.Probe("delete-matched-series")
		}
	case "dropmeas":
		err := sim.DropMeasurement(o.Meas)
		if !h.inWindow {
			h.quiesceBackground()
		}
		if err != nil {
			run.Fail("delete-failed", "", "op%d: DeleteMeasurement(%s): %v", i, o.Meas, err)
			return
		}
		if h.inWindow {
			wd := windowDelete{keys: map[string]bool{}, min: math.MinInt64, max: math.MaxInt64}
			for _, mm := range h.Models {
				for k, s := range mm.Series {
					if s.M == o.Meas {
						wd.keys[k] = true
					}
				}
			}
			h.windowDeletes = append(h.windowDeletes, wd)
		}
		for _, mm := range h.Models {
			mm.DropMeasurement(o.Meas)
		}
	case "reopen":
		if err := sim.Close(); err != nil {
			run.Fail("close-failed", "", "op%d: Close: %v", i, err)
			h.Sim = nil
			return
		}
		h.Sim = nil
		if h.Pr.CheckFiles {
			h.checkNoTmp(i)
		}
		if err := h.open(); err != nil {
			run.Fail("store-open-failed", "", "op%d: reopen: %v", i, err)
			return
		}
		for s := 0; s < h.Plan.NShards; s++ {
			if h.Sim.Store.Shard(h.shardID(s)) == nil {
				run.Fail("shard-missing-after-reopen", "", "op%d: shard %d did not open after clean restart", i, s+1)
			}
		}
		run.Probe("reopen")
	case "indexcompact":
		for _, sid := range sim.Shards {
			if sh := sim.Store.Shard(sid); sh != nil {
				if idx, err := sh.Index(); err == nil {
					if ti, ok := idx.(*tsi1.Index); ok {
						ti.Compact()
						ti.Wait()
						run.Probe("tsi1-compact")
					}
				}
			}
		}
		sim.IndexQuiesce()
		// the database-wide series file: rebuild the on-disk index of every
		// partition from its segments, as the background compaction does once
		// 128K series have accumulated in memory (both index types share it)
		if len(sim.Shards) > 0 && os.Getenv("VERIF_NO_SFILE_COMPACT") == "" && os.Getenv("VERIF_SFILE_SKIP_OP") != fmt.Sprint(i) {
			if sh := sim.Store.Shard(sim.Shards[0]); sh != nil {
				if sf, err := sh.SeriesFile(); err == nil && sf != nil {
					for _, part := range sf.Partitions() {
						if err := tsdb.NewSeriesPartitionCompactor().Compact(part); err != nil {
							run.Fail("series-file-compaction-failed", "", "op%d: %v", i, err)
							return
						}
					}
					run.Probe("series-file-compacted")
				}
			}
		}
	case "read":
		h.readCheck(i, o.Shard, o.Read)
	}
}

func (h *History) fieldHasData(m *model.Shard, meas, field string) bool {
	for _, s := range m.Series {
		if s.M == meas && len(s.Fields[field]) > 0 {
			return true
		}
	}
	return false
}

func (h *History) readCheck(i int, shard int, ro ReadOpts) {
	run := h.Run
	id := h.shardID(shard)
	m := h.Models[shard]
	obs, err := h.Sim.ReadIterators(id, ro, nil)
	if err != nil {
		run.Fail("read-error", "", "op%d: %v", i, err)
		return
	}
	if mm := CompareExact(m, obs, ro, "iterators"); mm != nil {
		if !run.Fail(mm.Class, h.siteOf(mm), "after op%d shard%d: %s", i, shard+1, mm.Detail) {
			h.stop = true
		}
		return
	}
	obs2, err := h.Sim.ReadCursors(id, ro, AllSeriesFields(m))
	if err != nil {
		run.Fail("read-error", "", "op%d: %v", i, err)
		return
	}
	if mm := CompareExact(m, obs2, ro, "cursors"); mm != nil {
		if !run.Fail(mm.Class, h.siteOf(mm), "after op%d shard%d: %s", i, shard+1, mm.Detail) {
			h.stop = true
		}
	}
}

func (h *History) union() *model.Shard {
	if len(h.Models) == 1 {
		return h.Models[0]
	}
	u := model.NewShard()
	for _, m := range h.Models {
		for k, s := range m.Series {
			if !s.Empty() {
				if u.Series[k] == nil {
					u.Series[k] = &model.Series{M: s.M, Tags: s.Tags, Fields: map[string]map[int64]model.Value{"x": {0: {}}}}
				}
			}
		}
		for k := range m.MaybeListed {
			u.MaybeListed[k] = true
		}
	}
	for k := range u.MaybeListed {
		if u.Series[k] != nil {
			delete(u.MaybeListed, k)
		}
	}
	return u
}

// check evaluates the profile's oracles after a step.
func (h *History) check(i int, o HOp) {
	run := h.Run
	if run.Failed() || h.Sim == nil || h.stop {
		return
	}
	if h.Pr.CheckReads {
		for s := range h.Models {
			h.readCheck(i, s, FullRange)
			if run.Failed() || h.stop {
				return
			}
		}
	}
	if h.Pr.CheckListing && !h.inWindow {
		h.listingCheck(i)
	}
	if h.Pr.CheckFiles && (o.Kind == "snapshot" || o.Kind == "compact" || o.Kind == "compactfiles") {
		h.fileCheck(i)
	}
}

func (h *History) listingCheck(i int) {
	run := h.Run
	h.Sim.IndexQuiesce()
	l, err := h.Sim.List()
	if err != nil {
		run.Fail("listing-error", "", "after op%d: %v", i, err)
		return
	}
	u := h.union()
	if h.Plan.Index == "inmem" {
		// the inmem index reports cardinality from sketches (an estimate by
		// design); only the exact tsi1 figure is held to the model
		l.Cardinality = int64(len(u.SeriesKeys()))
	}
	if mm := CompareListing(u, l); mm != nil {
		site := ""
		if mm.Site != "" {
			site = h.Plan.Index + ":" + mm.Site
		}
		diag := ""
		if mm.Key != "" {
			for s, m := range h.Models {
				name, tags := ParseSeriesKey(mm.Key)
				var what []SeriesField
				for _, fd := range Fields {
					what = append(what, SeriesField{M: name, Tags: tags, Field: fd.Name})
				}
				obs, err := h.Sim.ReadCursors(h.shardID(s), FullRange, what)
				diag += fmt.Sprintf("; shard%d cursor read of %s: %v err=%v model=%v", s+1, mm.Key, obs[mm.Key], err, m.Series[mm.Key])
			}
		}
		run.Fail(mm.Class, site, "after op%d (%s index): %s%s", i, h.Plan.Index, mm.Detail, diag)
		return
	}
	if h.Pr.CheckPreds {
		for _, pc := range predCases {
			got, err := h.Sim.SeriesByExpr(pc.cond)
			if err != nil {
				if strings.Contains(err.Error(), "fields not supported") {
					continue
				}
				run.Fail("listing-error", "", "after op%d: SeriesByExpr(%s): %v", i, pc.cond, err)
				return
			}
			gm := map[string]bool{}
			for _, k := range got {
				gm[k] = true
			}
			for k := range u.Series {
				_, tags := ParseSeriesKey(k)
				tv := map[string]string{}
				for _, t := range tags {
					tv[t.K] = t.V
				}
				want := pc.match(tv)
				if want && !gm[k] {
					run.Fail("predicate-misses-series", "", "after op%d (%s index): %s does not return %s (got %v)", i, h.Plan.Index, pc.cond, k, got)
					return
				}
				if !want && gm[k] {
					run.Fail("predicate-returns-wrong-series", "", "after op%d (%s index): %s returns %s (got %v)", i, h.Plan.Index, pc.cond, k, got)
					return
				}
			}
			for _, k := range got {
				if u.Series[k] == nil && !u.MaybeListed[k] {
					run.Fail("predicate-returns-removed-series", "", "after op%d (%s index): %s returns %s which has no points", i, h.Plan.Index, pc.cond, k)
					return
				}
			}
		}
	}
}

var predCases = []struct {
	cond  string
	match func(tv map[string]string) bool
}{
	{"a = 'x'", func(tv map[string]string) bool { return tv["a"] == "x" }},
	{"a != 'x'", func(tv map[string]string) bool { return tv["a"] != "x" }},
	{"a =~ /x|y/", func(tv map[string]string) bool { return tv["a"] == "x" || tv["a"] == "y" }},
	{"b !~ /p/", func(tv map[string]string) bool { return tv["b"] != "p" }},
	{"a = 'y' AND b = 'q'", func(tv map[string]string) bool { return tv["a"] == "y" && tv["b"] == "q" }},
	{"a = 'x' OR b = 'p'", func(tv map[string]string) bool { return tv["a"] == "x" || tv["b"] == "p" }},
	{"a = ''", func(tv map[string]string) bool { return tv["a"] == "" }},
	{"b =~ /.+/", func(tv map[string]string) bool { return tv["b"] != "" }},
}

// fileCheck verifies the TSM index invariants of every live file.
func (h *History) fileCheck(i int) {
	run := h.Run
	for _, id := range h.Sim.Shards {
		e, err := h.Sim.Engine(id)
		if err != nil {
			continue
		}
		for _, f := range e.FileStore.Files() {
			n := f.KeyCount()
			var prev []byte
			for k := 0; k < n; k++ {
				key, _ := f.KeyAt(k)
				if prev != nil && bytes.Compare(prev, key) >= 0 {
					run.Fail("tsm-keys-not-sorted", "", "after op%d: %s: key %q after %q", i, filepath.Base(f.Path()), key, prev)
					return
				}
				prev = append(prev[:0], key...)
				ents := f.Entries(key)
				if len(ents) > 65535 {
					run.Fail("tsm-too-many-blocks", "", "after op%d: %s: key %q has %d blocks", i, filepath.Base(f.Path()), key, len(ents))
					return
				}
				for j, en := range ents {
					if en.MinTime > en.MaxTime {
						run.Fail("tsm-entry-inverted", "", "after op%d: %s key %q entry %d [%d,%d]", i, filepath.Base(f.Path()), key, j, en.MinTime, en.MaxTime)
						return
					}
					if j > 0 && ents[j-1].MaxTime >= en.MinTime {
						run.Fail("tsm-blocks-overlap", "", "after op%d: %s key %q entries %d [%d,%d] and %d [%d,%d] overlap or are out of order", i, filepath.Base(f.Path()), key, j-1, ents[j-1].MinTime, ents[j-1].MaxTime, j, en.MinTime, en.MaxTime)
						return
					}
				}
				if len(ents) > 1 {
					run.Probe("multi-block-key")
				}
			}
		}
	}
}

func (h *History) checkNoTmp(i int) {
	// called between close and reopen: nothing to check yet
}

func (h *History) finalChecks() {
	run := h.Run
	if h.Sim == nil {
		return
	}
	// After a final clean restart no temporary file may remain and content is unchanged.
	if err := h.Sim.Close(); err != nil {
		run.Fail("close-failed", "", "final Close: %v", err)
		h.Sim = nil
		return
	}
	h.Sim = nil
	if err := h.open(); err != nil {
		run.Fail("store-open-failed", "", "final reopen: %v", err)
		return
	}
	if h.Pr.CheckFiles {
		filepath.Walk(filepath.Join(h.Root, "data"), func(p string, info os.FileInfo, err error) error {
			if err == nil && info.Mode().IsRegular() && strings.HasSuffix(p, ".tsm.tmp") {
				run.Fail("tmp-file-left-after-restart", "", "%s remains after a restart", p)
			}
			return nil
		})
	}
	for s := range h.Models {
		if h.Sim.Store.Shard(h.shardID(s)) == nil {
			run.Fail("shard-missing-after-reopen", "", "final reopen: shard %d did not open", s+1)
			return
		}
		h.readCheck(len(h.Plan.Ops), s, FullRange)
		if h.stop {
			return
		}
	}
	if h.Pr.CheckListing && !run.Failed() {
		h.listingCheck(len(h.Plan.Ops))
	}
}

// Warmup opens and uses each index type once outside any bubble.
func Warmup() {
	dir, _ := os.MkdirTemp(core.ScratchRoot(), "warm")
	defer os.RemoveAll(dir)
	for _, idx := range []string{"inmem", "tsi1"} {
		root := filepath.Join(dir, idx)
		sim, err := Open(root, Opts{Index: idx})
		if err != nil {
			panic(err)
		}
		sim.CreateShard(1)
		sim.Write(1, []model.Point{{M: "m0", T: 1, Fields: []model.FieldValue{{Name: "f", V: model.Value{K: model.Float, F: 1}}}}})
		sim.Snapshot(1)
		sim.ReadIterators(1, FullRange, nil)
		sim.List()
		sim.Close()
	}
}
