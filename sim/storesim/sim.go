// Package storesim drives a real tsdb.Store (tsm1 engine, WAL, cache,
// compactor, file store, tombstones, series file, inmem or tsi1 index) one
// operation at a time and reads its logical content back through the public
// read paths, for comparison with model.Shard.
package storesim

import (
	"context"
	"fmt"
	"math"
	"os"
	"path/filepath"
	"sort"
	"strings"
	"time"

	"github.com/influxdata/influxdb/models"
	"github.com/influxdata/influxdb/query"
	"github.com/influxdata/influxdb/tsdb"
	"github.com/influxdata/influxdb/tsdb/engine/tsm1"
	_ "github.com/influxdata/influxdb/tsdb/index"
	"github.com/influxdata/influxdb/tsdb/index/tsi1"
	"github.com/influxdata/influxql"
	"go.uber.org/zap"

	"verifsim/model"
)

const (
	DB = "db0"
	RP = "rp0"
)

// Opts are the per-run tuning knobs.
type Opts struct {
	Index         string // "inmem" | "tsi1"
	CompactorSize int    // points per block for compactions (0 = default)
	MaxLogFile    int64  // tsi1 log file size before compaction (0 = default)
	Observer      tsdb.FileStoreObserver
}

// MaxValuesPerRead bounds what one cursor or iterator may return: far above
// anything a simulated history holds (tens of thousands of points).
const MaxValuesPerRead = 1 << 20

// Sim is a store under simulation.
type Sim struct {
	Root   string
	Opts   Opts
	Store  *tsdb.Store
	Shards []uint64
}

// Open opens (or re-opens) the store under root. Background work is off: the
// monitor loop is disabled and shards do not schedule compactions; the driver
// is the only source of snapshots and compactions.
func Open(root string, o Opts) (*Sim, error) {
	s := tsdb.NewStore(filepath.Join(root, "data"))
	s.EngineOptions.IndexVersion = o.Index
	s.EngineOptions.Config.WALDir = filepath.Join(root, "wal")
	s.EngineOptions.Config.CompactThroughput = 0
	s.EngineOptions.Config.CompactThroughputBurst = 0
	s.EngineOptions.MonitorDisabled = true
	s.EngineOptions.CompactionDisabled = true
	if o.MaxLogFile > 0 {
		s.EngineOptions.Config.MaxIndexLogFileSize = tomlSize(o.MaxLogFile)
	}
	if o.Observer != nil {
		s.EngineOptions.FileStoreObserver = o.Observer
	}
	size := o.CompactorSize
	s.EngineOptions.OnNewEngine = func(e tsdb.Engine) {
		if te, ok := e.(*tsm1.Engine); ok && size > 0 {
			te.Compactor.Size = size
		}
	}
	s.WithLogger(zap.NewNop())
	if err := s.Open(); err != nil {
		return nil, err
	}
	sim := &Sim{Root: root, Opts: o, Store: s}
	sim.Shards = s.ShardIDs()
	sort.Slice(sim.Shards, func(i, j int) bool { return sim.Shards[i] < sim.Shards[j] })
	return sim, nil
}

// CreateShard creates a shard that accepts writes but schedules no background
// compactions.
func (s *Sim) CreateShard(id uint64) error {
	if err := s.Store.CreateShard(DB, RP, id, false); err != nil {
		return err
	}
	sh := s.Store.Shard(id)
	if sh == nil {
		return fmt.Errorf("shard %d missing after create", id)
	}
	sh.CompactionDisabled = true
	if err := s.Store.SetShardEnabled(id, true); err != nil {
		return err
	}
	s.Shards = append(s.Shards, id)
	return nil
}

// Close closes the store.
func (s *Sim) Close() error { return s.Store.Close() }

// Engine returns the tsm1 engine of a shard.
func (s *Sim) Engine(id uint64) (*tsm1.Engine, error) {
	sh := s.Store.Shard(id)
	if sh == nil {
		return nil, fmt.Errorf("shard %d not found", id)
	}
	e, err := sh.Engine()
	if err != nil {
		return nil, err
	}
	te, ok := e.(*tsm1.Engine)
	if !ok {
		return nil, fmt.Errorf("shard %d: engine is %T", id, e)
	}
	return te, nil
}

// ToPoints converts generated points to models.Points.
func ToPoints(ps []model.Point) ([]models.Point, error) {
	out := make([]models.Point, 0, len(ps))
	for _, p := range ps {
		tags := map[string]string{}
		for _, t := range p.Tags {
			tags[t.K] = t.V
		}
		fields := models.Fields{}
		for _, f := range p.Fields {
			switch f.V.K {
			case model.Float:
				fields[f.Name] = f.V.F
			case model.Integer:
				fields[f.Name] = f.V.I
			case model.Unsigned:
				fields[f.Name] = f.V.U
			case model.String:
				fields[f.Name] = f.V.S
			case model.Boolean:
				fields[f.Name] = f.V.B
			}
		}
		mp, err := models.NewPoint(p.M, models.NewTags(tags), fields, time.Unix(0, p.T))
		if err != nil {
			return nil, err
		}
		out = append(out, mp)
	}
	return out, nil
}

// Write writes a batch to a shard through the store.
func (s *Sim) Write(id uint64, ps []model.Point) error {
	mps, err := ToPoints(ps)
	if err != nil {
		return fmt.Errorf("harness: cannot build points: %w", err)
	}
	return s.Store.WriteToShard(id, mps)
}

// Snapshot writes the cache of a shard to a TSM file (the engine's own
// WriteSnapshot).
func (s *Sim) Snapshot(id uint64) error {
	e, err := s.Engine(id)
	if err != nil {
		return err
	}
	return e.WriteSnapshot()
}

// CompactKind selects a compaction.
type CompactKind int

const (
	Level1 CompactKind = iota
	Level2
	Level3
	Full
	Optimize
	numCompactKinds
)

func (k CompactKind) String() string {
	return [...]string{"level1", "level2", "level3", "full", "optimize"}[k]
}

// Compact plans with the engine's own planner and runs the engine's own
// compaction strategy on the pick-th planned group. It returns the number of
// files in the group (0 when the planner offered nothing).
func (s *Sim) Compact(id uint64, kind CompactKind, pick int) (int, error) {
	e, err := s.Engine(id)
	if err != nil {
		return 0, err
	}
	e.Compactor.EnableCompactions()
	var groups []tsm1.CompactionGroup
	switch kind {
	case Level1, Level2, Level3:
		groups = e.CompactionPlan.PlanLevel(int(kind) + 1)
	case Full:
		e.CompactionPlan.ForceFull()
		groups = e.CompactionPlan.Plan(time.Unix(0, 0)) // long ago: cold
	case Optimize:
		groups = e.CompactionPlan.PlanOptimize()
	}
	if len(groups) == 0 {
		return 0, nil
	}
	g := groups[pick%len(groups)]
	var rest []tsm1.CompactionGroup
	for i := range groups {
		if i != pick%len(groups) {
			rest = append(rest, groups[i])
		}
	}
	e.CompactionPlan.Release(rest)
	switch kind {
	case Level1, Level2:
		e.VerifCompactGroup(g, int(kind)+1, false, false, false)
	case Level3:
		e.VerifCompactGroup(g, 3, true, false, false)
	case Full:
		e.VerifCompactGroup(g, 4, false, true, false)
	case Optimize:
		e.VerifCompactGroup(g, 4, true, true, true)
	}
	return len(g), nil
}

// CompactFiles compacts an arbitrary adjacent run of the shard's TSM files
// [from, from+n) with the engine's own strategy (full or fast).
func (s *Sim) CompactFiles(id uint64, from, n int, fast bool) (int, error) {
	e, err := s.Engine(id)
	if err != nil {
		return 0, err
	}
	e.Compactor.EnableCompactions()
	files := e.FileStore.Files()
	if len(files) < 2 {
		return 0, nil
	}
	from %= len(files) - 1
	if n < 2 {
		n = 2
	}
	if from+n > len(files) {
		n = len(files) - from
	}
	// The engine's planner never splits a generation (after a crash inside a
	// compaction the output NNN-(s+1) can stand beside an input NNN-s; the
	// output of compacting a part of that generation would take the name of
	// the file left out), so the run is widened to whole generations.
	gen := func(i int) int {
		g, _, err := tsm1.DefaultParseFileName(files[i].Path())
		if err != nil {
			return -i - 1
		}
		return g
	}
	end := from + n
	for from > 0 && gen(from-1) == gen(from) {
		from--
	}
	for end < len(files) && gen(end) == gen(end-1) {
		end++
	}
	var g tsm1.CompactionGroup
	for _, f := range files[from:end] {
		g = append(g, f.Path())
	}
	e.VerifCompactGroup(g, 4, fast, true, fast)
	return len(g), nil
}

// TSMFileCount returns the number of TSM files of a shard.
func (s *Sim) TSMFileCount(id uint64) int {
	e, err := s.Engine(id)
	if err != nil {
		return 0
	}
	return e.FileStore.Count()
}

// DeleteWhere runs Store.DeleteSeries (the path behind DELETE and DROP
// SERIES) for the given measurements ("" = all) and condition text.
func (s *Sim) DeleteWhere(measurements []string, cond string) error {
	var sources []influxql.Source
	for _, m := range measurements {
		sources = append(sources, &influxql.Measurement{Name: m})
	}
	var expr influxql.Expr
	if cond != "" {
		var err error
		expr, err = influxql.ParseExpr(cond)
		if err != nil {
			return fmt.Errorf("harness: bad condition %q: %w", cond, err)
		}
	}
	return s.Store.DeleteSeries(DB, sources, expr)
}

// DropMeasurement runs Store.DeleteMeasurement.
func (s *Sim) DropMeasurement(name string) error { return s.Store.DeleteMeasurement(DB, name) }

// TimeCond renders an inclusive time range as an InfluxQL condition.
func TimeCond(min, max int64) string {
	var parts []string
	if min != math.MinInt64 {
		parts = append(parts, fmt.Sprintf("time >= %d", min))
	}
	if max != math.MaxInt64 {
		parts = append(parts, fmt.Sprintf("time <= %d", max))
	}
	return strings.Join(parts, " AND ")
}

// IndexQuiesce waits for index and series-file compactions to finish.
func (s *Sim) IndexQuiesce() {
	for _, id := range s.Shards {
		sh := s.Store.Shard(id)
		if sh == nil {
			continue
		}
		if idx, err := sh.Index(); err == nil {
			if ti, ok := idx.(*tsi1.Index); ok {
				ti.Wait()
			}
		}
		if sf, err := sh.SeriesFile(); err == nil && sf != nil {
			sf.Wait()
		}
	}
}

// kindOf maps an influxql type to a model kind.
func kindOf(t influxql.DataType) model.Kind {
	switch t {
	case influxql.Float:
		return model.Float
	case influxql.Integer:
		return model.Integer
	case influxql.Unsigned:
		return model.Unsigned
	case influxql.String:
		return model.String
	case influxql.Boolean:
		return model.Boolean
	}
	return 0
}

// ReadOpts selects the read path and range.
type ReadOpts struct {
	Min, Max  int64
	Ascending bool
}

// FullRange covers every representable point time.
var FullRange = ReadOpts{Min: influxql.MinTime, Max: influxql.MaxTime, Ascending: true}

// Observed is what a shard returned: series key -> field -> points in the
// order returned.
type Observed map[string]map[string][]model.TV

// ReadIterators reads every (measurement, field) the shard knows through
// Shard.CreateIterator (raw field select grouped by every tag key; iterator
// block decoders).
func (s *Sim) ReadIterators(id uint64, ro ReadOpts, extraMeas []string) (Observed, error) {
	sh := s.Store.Shard(id)
	if sh == nil {
		return nil, fmt.Errorf("shard %d not found", id)
	}
	obs := Observed{}
	names, err := sh.MeasurementNamesByPredicate(nil)
	if err != nil {
		return nil, fmt.Errorf("MeasurementNamesByPredicate: %w", err)
	}
	set := map[string]bool{}
	for _, n := range names {
		set[string(n)] = true
	}
	for _, n := range extraMeas {
		set[n] = true
	}
	var ms []string
	for n := range set {
		ms = append(ms, n)
	}
	sort.Strings(ms)
	for _, m := range ms {
		fields, dims, err := sh.FieldDimensions([]string{m})
		if err != nil {
			return nil, fmt.Errorf("FieldDimensions(%s): %w", m, err)
		}
		var tagKeys []string
		for k := range dims {
			tagKeys = append(tagKeys, k)
		}
		sort.Strings(tagKeys)
		var fns []string
		for f := range fields {
			fns = append(fns, f)
		}
		sort.Strings(fns)
		for _, f := range fns {
			opt := query.IteratorOptions{
				Expr:       &influxql.VarRef{Val: f, Type: fields[f]},
				Dimensions: tagKeys,
				StartTime:  ro.Min,
				EndTime:    ro.Max,
				Ascending:  ro.Ascending,
				Ordered:    true,
			}
			itr, err := sh.CreateIterator(context.Background(), &influxql.Measurement{Name: m}, opt)
			if err != nil {
				return nil, fmt.Errorf("CreateIterator(%s.%s): %w", m, f, err)
			}
			if itr == nil {
				continue
			}
			if err := drain(itr, m, f, obs); err != nil {
				itr.Close()
				return nil, fmt.Errorf("reading %s.%s: %w", m, f, err)
			}
			itr.Close()
		}
	}
	return obs, nil
}

func keyFromTags(m string, tags query.Tags) string {
	km := tags.KeyValues()
	var ts []model.Tag
	for k, v := range km {
		ts = append(ts, model.Tag{K: k, V: v})
	}
	return model.SeriesKey(m, ts)
}

func add(obs Observed, key, field string, tv model.TV) {
	if obs[key] == nil {
		obs[key] = map[string][]model.TV{}
	}
	obs[key][field] = append(obs[key][field], tv)
}

func drain(itr query.Iterator, m, f string, obs Observed) error {
	nread := 0
	tooMany := fmt.Errorf("iterator over %s %s returned more than %d points and does not end", m, f, MaxValuesPerRead)
	switch it := itr.(type) {
	case query.FloatIterator:
		for {
			p, err := it.Next()
			if err != nil {
				return err
			}
			if p == nil {
				return nil
			}
			if nread++; nread > MaxValuesPerRead {
				return tooMany
			}
			if p.Nil {
				continue
			}
			add(obs, keyFromTags(m, p.Tags), f, model.TV{T: p.Time, V: model.Value{K: model.Float, F: p.Value}})
		}
	case query.IntegerIterator:
		for {
			p, err := it.Next()
			if err != nil {
				return err
			}
			if p == nil {
				return nil
			}
			if nread++; nread > MaxValuesPerRead {
				return tooMany
			}
			if p.Nil {
				continue
			}
			add(obs, keyFromTags(m, p.Tags), f, model.TV{T: p.Time, V: model.Value{K: model.Integer, I: p.Value}})
		}
	case query.UnsignedIterator:
		for {
			p, err := it.Next()
			if err != nil {
				return err
			}
			if p == nil {
				return nil
			}
			if nread++; nread > MaxValuesPerRead {
				return tooMany
			}
			if p.Nil {
				continue
			}
			add(obs, keyFromTags(m, p.Tags), f, model.TV{T: p.Time, V: model.Value{K: model.Unsigned, U: p.Value}})
		}
	case query.StringIterator:
		for {
			p, err := it.Next()
			if err != nil {
				return err
			}
			if p == nil {
				return nil
			}
			if nread++; nread > MaxValuesPerRead {
				return tooMany
			}
			if p.Nil {
				continue
			}
			add(obs, keyFromTags(m, p.Tags), f, model.TV{T: p.Time, V: model.Value{K: model.String, S: p.Value}})
		}
	case query.BooleanIterator:
		for {
			p, err := it.Next()
			if err != nil {
				return err
			}
			if p == nil {
				return nil
			}
			if nread++; nread > MaxValuesPerRead {
				return tooMany
			}
			if p.Nil {
				continue
			}
			add(obs, keyFromTags(m, p.Tags), f, model.TV{T: p.Time, V: model.Value{K: model.Boolean, B: p.Value}})
		}
	}
	return fmt.Errorf("unexpected iterator type %T", itr)
}

// SeriesField names one series field to read.
type SeriesField struct {
	M     string
	Tags  []model.Tag
	Field string
}

// ReadCursors reads the given series fields through Shard.CreateCursorIterator
// (array cursors; batch decoders). It does not consult the index.
func (s *Sim) ReadCursors(id uint64, ro ReadOpts, what []SeriesField) (Observed, error) {
	sh := s.Store.Shard(id)
	if sh == nil {
		return nil, fmt.Errorf("shard %d not found", id)
	}
	ci, err := sh.CreateCursorIterator(context.Background())
	if err != nil {
		return nil, fmt.Errorf("CreateCursorIterator: %w", err)
	}
	obs := Observed{}
	for _, w := range what {
		tm := map[string]string{}
		for _, t := range w.Tags {
			if t.V != "" {
				tm[t.K] = t.V
			}
		}
		req := &tsdb.CursorRequest{Name: []byte(w.M), Tags: models.NewTags(tm), Field: w.Field,
			Ascending: ro.Ascending, StartTime: ro.Min, EndTime: ro.Max}
		cur, err := ci.Next(context.Background(), req)
		if err != nil {
			return nil, fmt.Errorf("cursor %s %s: %w", model.SeriesKey(w.M, w.Tags), w.Field, err)
		}
		if cur == nil {
			continue
		}
		key := model.SeriesKey(w.M, w.Tags)
		// a cursor that never runs dry (e.g. timestamps that do not advance)
		// is a read that never returns: bounded here, reported by the caller
		nread := 0
		tooMany := func(n int) bool { nread += n; return nread > MaxValuesPerRead }
		switch c := cur.(type) {
		case tsdb.FloatArrayCursor:
			for a := c.Next(); a.Len() > 0 && !tooMany(a.Len()); a = c.Next() {
				for i := range a.Timestamps {
					add(obs, key, w.Field, model.TV{T: a.Timestamps[i], V: model.Value{K: model.Float, F: a.Values[i]}})
				}
			}
		case tsdb.IntegerArrayCursor:
			for a := c.Next(); a.Len() > 0 && !tooMany(a.Len()); a = c.Next() {
				for i := range a.Timestamps {
					add(obs, key, w.Field, model.TV{T: a.Timestamps[i], V: model.Value{K: model.Integer, I: a.Values[i]}})
				}
			}
		case tsdb.UnsignedArrayCursor:
			for a := c.Next(); a.Len() > 0 && !tooMany(a.Len()); a = c.Next() {
				for i := range a.Timestamps {
					add(obs, key, w.Field, model.TV{T: a.Timestamps[i], V: model.Value{K: model.Unsigned, U: a.Values[i]}})
				}
			}
		case tsdb.StringArrayCursor:
			for a := c.Next(); a.Len() > 0 && !tooMany(a.Len()); a = c.Next() {
				for i := range a.Timestamps {
					add(obs, key, w.Field, model.TV{T: a.Timestamps[i], V: model.Value{K: model.String, S: a.Values[i]}})
				}
			}
		case tsdb.BooleanArrayCursor:
			for a := c.Next(); a.Len() > 0 && !tooMany(a.Len()); a = c.Next() {
				for i := range a.Timestamps {
					add(obs, key, w.Field, model.TV{T: a.Timestamps[i], V: model.Value{K: model.Boolean, B: a.Values[i]}})
				}
			}
		default:
			cur.Close()
			return nil, fmt.Errorf("unexpected cursor type %T", cur)
		}
		cerr := cur.Err()
		cur.Close()
		if nread > MaxValuesPerRead {
			return nil, fmt.Errorf("cursor %s %s returned more than %d values and does not end", key, w.Field, MaxValuesPerRead)
		}
		if cerr != nil {
			return nil, fmt.Errorf("cursor %s %s: %w", key, w.Field, cerr)
		}
	}
	return obs, nil
}

// AllSeriesFields lists every (series, field) of the models given, for the
// cursor read path.
func AllSeriesFields(ms ...*model.Shard) []SeriesField {
	seen := map[string]bool{}
	var out []SeriesField
	for _, m := range ms {
		if m == nil {
			continue
		}
		for key, s := range m.Series {
			for f := range s.Fields {
				id := key + "\x00" + f
				if seen[id] {
					continue
				}
				seen[id] = true
				out = append(out, SeriesField{M: s.M, Tags: s.Tags, Field: f})
			}
		}
	}
	sort.Slice(out, func(i, j int) bool {
		a, b := model.SeriesKey(out[i].M, out[i].Tags), model.SeriesKey(out[j].M, out[j].Tags)
		if a != b {
			return a < b
		}
		return out[i].Field < out[j].Field
	})
	return out
}

// Listing is what the index reports for a database.
type Listing struct {
	Measurements []string
	Series       []string // canonical keys, from MeasurementSeriesByExprIterator
	TagKeys      map[string][]string
	TagValues    map[string]map[string][]string // measurement -> key -> values
	Cardinality  int64
}

// List queries the store's metadata listings for the simulated database.
func (s *Sim) List() (*Listing, error) {
	ctx := context.Background()
	l := &Listing{TagKeys: map[string][]string{}, TagValues: map[string]map[string][]string{}}
	rp := RP
	if s.Opts.Index == "inmem" {
		rp = "" // the inmem index does not support a retention-policy filter
	}
	names, err := s.Store.MeasurementNames(ctx, nil, DB, rp, nil)
	if err != nil {
		return nil, fmt.Errorf("MeasurementNames: %w", err)
	}
	for _, n := range names {
		l.Measurements = append(l.Measurements, string(n))
	}
	sort.Strings(l.Measurements)
	ids := s.Store.ShardIDs()
	tks, err := s.Store.TagKeys(ctx, nil, ids, nil)
	if err != nil {
		return nil, fmt.Errorf("TagKeys: %w", err)
	}
	for _, tk := range tks {
		ks := append([]string(nil), tk.Keys...)
		sort.Strings(ks)
		l.TagKeys[tk.Measurement] = ks
	}
	tvs, err := s.Store.TagValues(ctx, nil, ids, &influxql.BinaryExpr{
		Op:  influxql.NEQREGEX,
		LHS: &influxql.VarRef{Val: "_tagKey"},
		RHS: &influxql.RegexLiteral{Val: regexpMust("^$")},
	})
	if err != nil {
		return nil, fmt.Errorf("TagValues: %w", err)
	}
	for _, tv := range tvs {
		m := l.TagValues[tv.Measurement]
		if m == nil {
			m = map[string][]string{}
			l.TagValues[tv.Measurement] = m
		}
		for _, kv := range tv.Values {
			m[kv.Key] = append(m[kv.Key], kv.Value)
		}
	}
	for _, m := range l.TagValues {
		for k := range m {
			sort.Strings(m[k])
		}
	}
	card, err := s.Store.SeriesCardinality(ctx, DB)
	if err != nil {
		return nil, fmt.Errorf("SeriesCardinality: %w", err)
	}
	l.Cardinality = card
	ser, err := s.SeriesByExpr("")
	if err != nil {
		return nil, err
	}
	l.Series = ser
	return l, nil
}

// SeriesByExpr lists the series keys the index set of the database returns
// for a tag predicate ("" = all), over every measurement.
func (s *Sim) SeriesByExpr(cond string) ([]string, error) {
	var expr influxql.Expr
	if cond != "" {
		var err error
		if expr, err = influxql.ParseExpr(cond); err != nil {
			return nil, fmt.Errorf("harness: bad condition %q: %w", cond, err)
		}
	}
	set := map[string]bool{}
	for _, id := range s.Store.ShardIDs() {
		sh := s.Store.Shard(id)
		if sh == nil {
			continue
		}
		idx, err := sh.Index()
		if err != nil {
			return nil, err
		}
		sf, err := sh.SeriesFile()
		if err != nil {
			return nil, err
		}
		is := tsdb.IndexSet{Indexes: []tsdb.Index{idx}, SeriesFile: sf}
		names, err := is.MeasurementNamesByExpr(nil, nil)
		if err != nil {
			return nil, fmt.Errorf("MeasurementNamesByExpr: %w", err)
		}
		for _, n := range names {
			itr, err := is.MeasurementSeriesByExprIterator(n, expr)
			if err != nil {
				return nil, fmt.Errorf("MeasurementSeriesByExprIterator(%s): %w", n, err)
			}
			if itr == nil {
				continue
			}
			for {
				e, err := itr.Next()
				if err != nil {
					itr.Close()
					return nil, err
				}
				if e.SeriesID == 0 {
					break
				}
				name, tags := sf.Series(e.SeriesID)
				if name == nil {
					continue
				}
				var ts []model.Tag
				for _, t := range tags {
					ts = append(ts, model.Tag{K: string(t.Key), V: string(t.Value)})
				}
				set[model.SeriesKey(string(name), ts)] = true
			}
			itr.Close()
		}
	}
	var out []string
	for k := range set {
		out = append(out, k)
	}
	sort.Strings(out)
	return out, nil
}

// RemoveAll removes the store directory.
func (s *Sim) RemoveAll() { os.RemoveAll(s.Root) }
