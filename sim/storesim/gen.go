package storesim

import (
	"math"
	"strings"

	"github.com/influxdata/influxdb/models"
	"pgregory.net/rapid"

	"verifsim/model"
)

// The simulator's data universe is deliberately small so that runs of a few
// dozen operations revisit the same series, fields and timestamps (overwrites,
// overlapping files, partial deletes).
var (
	Measurements = []string{"m0", "m1"}
	TagA         = []string{"", "x", "y"}
	TagB         = []string{"", "p", "q"}
	// Field names carry their type: a field name never changes type except
	// in deliberately conflicting points.
	Fields = []struct {
		Name string
		K    model.Kind
	}{
		{"f", model.Float}, {"g", model.Float}, {"i", model.Integer},
		{"u", model.Unsigned}, {"s", model.String}, {"bo", model.Boolean},
	}
)

// Tape is a finite list of plan-drawn integers for state-dependent choices.
type Tape struct {
	V []uint64
	i int
}

// Next returns the next raw value (0 when exhausted).
func (t *Tape) Next() uint64 {
	if t.i >= len(t.V) {
		return 0
	}
	v := t.V[t.i]
	t.i++
	return v
}

// Choose returns a plan-decided integer in [0,n).
func (t *Tape) Choose(n int) int {
	if n <= 1 {
		return 0
	}
	return int(t.Next() % uint64(n))
}

// GenTape draws a tape of n values.
func GenTape(t *rapid.T, n int, label string) []uint64 {
	return rapid.SliceOfN(rapid.Uint64Range(0, 1<<30), n, n).Draw(t, label)
}

// GenTime draws a timestamp: mostly a small range (so that overwrites and
// overlaps happen), sometimes around block-ish boundaries, rarely extreme.
func GenTime(t *rapid.T, label string) int64 {
	switch rapid.IntRange(0, 19).Draw(t, label+".tk") {
	case 0:
		return models.MinNanoTime
	case 1:
		return models.MaxNanoTime
	case 2:
		return rapid.Int64Range(-5, 5).Draw(t, label)
	case 3:
		return rapid.Int64Range(models.MinNanoTime, models.MaxNanoTime).Draw(t, label)
	default:
		return rapid.Int64Range(0, 40).Draw(t, label)
	}
}

// GenValue draws a value of kind k, biased to what the encoders branch on.
func GenValue(t *rapid.T, k model.Kind, label string) model.Value {
	switch k {
	case model.Float:
		switch rapid.IntRange(0, 9).Draw(t, label+".fk") {
		case 0:
			return model.Value{K: k, F: []float64{0, math.Copysign(0, -1), math.MaxFloat64, -math.MaxFloat64, math.SmallestNonzeroFloat64, 1}[rapid.IntRange(0, 5).Draw(t, label+".fx")]}
		case 1:
			f := math.Float64frombits(rapid.Uint64().Draw(t, label+".bits"))
			if math.IsNaN(f) || math.IsInf(f, 0) {
				f = 1.5
			}
			return model.Value{K: k, F: f}
		default:
			return model.Value{K: k, F: float64(rapid.IntRange(-1000, 1000).Draw(t, label)) / 8}
		}
	case model.Integer:
		switch rapid.IntRange(0, 9).Draw(t, label+".ik") {
		case 0:
			return model.Value{K: k, I: []int64{math.MinInt64, math.MaxInt64, 0, -1, 1 << 60, -(1 << 60)}[rapid.IntRange(0, 5).Draw(t, label+".ix")]}
		case 1:
			return model.Value{K: k, I: rapid.Int64().Draw(t, label)}
		default:
			return model.Value{K: k, I: rapid.Int64Range(-100, 100).Draw(t, label)}
		}
	case model.Unsigned:
		switch rapid.IntRange(0, 9).Draw(t, label+".uk") {
		case 0:
			return model.Value{K: k, U: []uint64{0, math.MaxUint64, 1 << 63, 1<<63 - 1}[rapid.IntRange(0, 3).Draw(t, label+".ux")]}
		case 1:
			return model.Value{K: k, U: rapid.Uint64().Draw(t, label)}
		default:
			return model.Value{K: k, U: rapid.Uint64Range(0, 200).Draw(t, label)}
		}
	case model.String:
		switch rapid.IntRange(0, 9).Draw(t, label+".sk") {
		case 0:
			return model.Value{K: k, S: ""}
		case 1:
			return model.Value{K: k, S: strings.Repeat("ab\x00\"\\,= \n", rapid.IntRange(1, 40).Draw(t, label+".rep"))}
		default:
			return model.Value{K: k, S: rapid.StringMatching(`[a-z0-9]{0,6}`).Draw(t, label)}
		}
	case model.Boolean:
		return model.Value{K: k, B: rapid.Bool().Draw(t, label)}
	}
	panic("unknown kind")
}

// GenTags draws the tag set of a series in a random order.
func GenTags(t *rapid.T, label string) []model.Tag {
	a := TagA[rapid.IntRange(0, len(TagA)-1).Draw(t, label+".a")]
	b := TagB[rapid.IntRange(0, len(TagB)-1).Draw(t, label+".b")]
	var ts []model.Tag
	if a != "" {
		ts = append(ts, model.Tag{K: "a", V: a})
	}
	if b != "" {
		ts = append(ts, model.Tag{K: "b", V: b})
	}
	if len(ts) == 2 && rapid.Bool().Draw(t, label+".swap") {
		ts[0], ts[1] = ts[1], ts[0]
	}
	return ts
}

// GenPoint draws one point with 1-3 fields.
func GenPoint(t *rapid.T, label string) model.Point {
	p := model.Point{
		M:    Measurements[rapid.IntRange(0, len(Measurements)-1).Draw(t, label+".m")],
		Tags: GenTags(t, label+".tags"),
		T:    GenTime(t, label+".t"),
	}
	n := rapid.IntRange(1, 3).Draw(t, label+".nf")
	used := map[string]bool{}
	for i := 0; i < n; i++ {
		fd := Fields[rapid.IntRange(0, len(Fields)-1).Draw(t, label+".fd")]
		if used[fd.Name] {
			continue
		}
		used[fd.Name] = true
		p.Fields = append(p.Fields, model.FieldValue{Name: fd.Name, V: GenValue(t, fd.K, label+".v")})
	}
	return p
}

// GenBatch draws a batch of 1..max points.
func GenBatch(t *rapid.T, max int, label string) []model.Point {
	n := rapid.IntRange(1, max).Draw(t, label+".n")
	out := make([]model.Point, 0, n)
	for i := 0; i < n; i++ {
		out = append(out, GenPoint(t, label))
	}
	return out
}

// GenRun draws a long run of consecutive timestamps for one series field
// (fills and crosses block boundaries).
func GenRun(t *rapid.T, label string) []model.Point {
	m := Measurements[rapid.IntRange(0, len(Measurements)-1).Draw(t, label+".m")]
	tags := GenTags(t, label+".tags")
	fd := Fields[rapid.IntRange(0, len(Fields)-1).Draw(t, label+".fd")]
	start := rapid.Int64Range(-20, 60).Draw(t, label+".start")
	step := rapid.Int64Range(1, 3).Draw(t, label+".step")
	if rapid.IntRange(0, 2).Draw(t, label+".scaled") == 0 {
		// regular intervals from nanoseconds to hours: the timestamp codec
		// divides the deltas by the largest power of ten they share
		step = rapid.SampledFrom([]int64{1, 2, 5}).Draw(t, label+".mant")
		for e := rapid.IntRange(0, 13).Draw(t, label+".exp"); e > 0; e-- {
			step *= 10
		}
	}
	n := rapid.IntRange(2, 2100).Draw(t, label+".n")
	shape := rapid.IntRange(0, 3).Draw(t, label+".shape")
	if rapid.IntRange(0, 7).Draw(t, label+".huge") == 0 {
		// one write whose log entry is larger than the log's write buffers
		// (two 16 KiB buffers in a row): incompressible values, thousands of them
		n = rapid.IntRange(4200, 6500).Draw(t, label+".hn")
		shape = 3
		fd = Fields[2+rapid.IntRange(0, 1).Draw(t, label+".hfd")] // integer or unsigned: all 64 bits vary
	}
	seed := rapid.Int64Range(-50, 50).Draw(t, label+".seed")
	// two more shapes, one run in six each:
	// 4 - neighbouring floats that differ from bit 31 of the mantissa down:
	//     the XOR the float codec stores has exactly 32 leading zeros;
	// 5 - a short run written out of order with many timestamps written
	//     twice or more (the later value wins): more than a dozen values of
	//     one key that have to be sorted and deduplicated
	switch rapid.IntRange(0, 5).Draw(t, label+".special") {
	case 0:
		shape, fd = 4, Fields[rapid.IntRange(0, 1).Draw(t, label+".ffd")]
	case 1:
		shape = 5
		n = rapid.IntRange(14, 70).Draw(t, label+".dn")
		if step > 3 {
			step = 1
		}
	}
	out := make([]model.Point, 0, n)
	for j := 0; j < n; j++ {
		var v model.Value
		x := int64(j)
		switch shape {
		case 0: // constant
			x = seed
		case 1: // linear
			x = seed + int64(j)*3
		case 2: // alternating sign, growing
			x = (seed + int64(j)*int64(j)) * (1 - 2*(int64(j)&1))
		default: // pseudo-random but a pure function of the plan
			x = (seed+int64(j))*6364136223846793005 + 1442695040888963407
		}
		switch fd.K {
		case model.Float:
			v = model.Value{K: fd.K, F: float64(x%100000) / 4}
			if shape == 4 {
				bits := math.Float64bits(1.5 + float64(seed)/1024)
				if j%2 == 1 {
					bits ^= 1<<31 | uint64(j)*2654435761%(1<<31)
				}
				v.F = math.Float64frombits(bits)
			}
		case model.Integer:
			v = model.Value{K: fd.K, I: x}
		case model.Unsigned:
			v = model.Value{K: fd.K, U: uint64(x)}
		case model.String:
			v = model.Value{K: fd.K, S: strings.Repeat("z", int(uint64(x)%7))}
		case model.Boolean:
			v = model.Value{K: fd.K, B: x&1 == 0}
		}
		ts := start + int64(j)*step
		if shape == 5 {
			// a third as many distinct instants as points, visited in a scrambled order
			ts = start + (int64(j)*7919+seed*seed)%(int64(n)/3+1)*step
		}
		out = append(out, model.Point{M: m, Tags: tags, T: ts, Fields: []model.FieldValue{{Name: fd.Name, V: v}}})
	}
	return out
}

// ParseSeriesKey splits a canonical key of the simulator's universe.
func ParseSeriesKey(key string) (string, []model.Tag) {
	parts := strings.Split(key, ",")
	var ts []model.Tag
	for _, p := range parts[1:] {
		kv := strings.SplitN(p, "=", 2)
		if len(kv) == 2 {
			ts = append(ts, model.Tag{K: kv[0], V: kv[1]})
		}
	}
	return parts[0], ts
}
