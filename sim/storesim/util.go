package storesim

import (
	"regexp"

	"github.com/influxdata/influxdb/toml"
)

func tomlSize(n int64) toml.Size { return toml.Size(n) }

func regexpMust(s string) *regexp.Regexp { return regexp.MustCompile(s) }
