package storesim

import (
	"fmt"
	"sort"
	"strings"

	"verifsim/model"
)

// Mismatch describes an oracle mismatch.
type Mismatch struct {
	Class  string
	Site   string
	Detail string
	// Key, Field, T locate the first differing cell for read mismatches.
	Key   string
	Field string
	T     int64
	HasT  bool
}

func (m *Mismatch) Error() string { return m.Class + ": " + m.Detail }

func inRange(t int64, ro ReadOpts) bool { return t >= ro.Min && t <= ro.Max }

// checkOrder verifies strict monotonic order in the requested direction (one
// point per timestamp).
func checkOrder(key, field string, got []model.TV, asc bool, via string) *Mismatch {
	for i := 1; i < len(got); i++ {
		if asc && got[i].T <= got[i-1].T || !asc && got[i].T >= got[i-1].T {
			return &Mismatch{Class: "read-order-or-duplicate", Detail: fmt.Sprintf("%s: %s %s: t[%d]=%d after t[%d]=%d (ascending=%v)", via, key, field, i, got[i].T, i-1, got[i-1].T, asc)}
		}
	}
	return nil
}

// CompareExact checks that obs equals the model restricted to ro.
// restrictTo, when non-nil, limits the check of unexpected data to those
// series fields (the cursor path only reads what it is asked for).
func CompareExact(m *model.Shard, obs Observed, ro ReadOpts, via string) *Mismatch {
	keys := m.SeriesKeys()
	for _, key := range keys {
		s := m.Series[key]
		var fns []string
		for f := range s.Fields {
			fns = append(fns, f)
		}
		sort.Strings(fns)
		for _, f := range fns {
			want := m.Read(key, f, ro.Min, ro.Max, ro.Ascending)
			got := obs[key][f]
			if mm := checkOrder(key, f, got, ro.Ascending, via); mm != nil {
				return mm
			}
			if len(got) != len(want) {
				mm := &Mismatch{Class: "read-differs-from-model", Key: key, Field: f, Detail: fmt.Sprintf("%s: %s %s range[%d,%d] asc=%v: got %d points, model has %d; got=%s want=%s", via, key, f, ro.Min, ro.Max, ro.Ascending, len(got), len(want), brief(got), brief(want))}
				if t, ok := firstDiff(got, want); ok {
					mm.T, mm.HasT = t, true
				}
				return mm
			}
			for i := range want {
				if got[i].T != want[i].T || !got[i].V.Equal(want[i].V) {
					return &Mismatch{Class: "read-differs-from-model", Key: key, Field: f, T: got[i].T, HasT: true, Detail: fmt.Sprintf("%s: %s %s: point %d: got (%d,%s) model (%d,%s)", via, key, f, i, got[i].T, got[i].V, want[i].T, want[i].V)}
				}
			}
		}
	}
	// Anything observed that the model does not have.
	var okeys []string
	for k := range obs {
		okeys = append(okeys, k)
	}
	sort.Strings(okeys)
	for _, key := range okeys {
		var fns []string
		for f := range obs[key] {
			fns = append(fns, f)
		}
		sort.Strings(fns)
		for _, f := range fns {
			got := obs[key][f]
			if len(got) == 0 {
				continue
			}
			s := m.Series[key]
			if s == nil || len(s.Fields[f]) == 0 {
				return &Mismatch{Class: "unexpected-data", Key: key, Field: f, T: got[0].T, HasT: true, Detail: fmt.Sprintf("%s: %s %s: %d points returned, model has none: %s", via, key, f, len(got), brief(got))}
			}
		}
	}
	return nil
}

// firstDiff returns the first timestamp present in exactly one of the lists.
func firstDiff(got, want []model.TV) (int64, bool) {
	w := map[int64]bool{}
	for _, p := range want {
		w[p.T] = true
	}
	g := map[int64]bool{}
	for _, p := range got {
		g[p.T] = true
		if !w[p.T] {
			return p.T, true
		}
	}
	for _, p := range want {
		if !g[p.T] {
			return p.T, true
		}
	}
	return 0, false
}

func brief(tv []model.TV) string {
	s := "["
	for i, p := range tv {
		if i == 8 {
			s += fmt.Sprintf(" …+%d", len(tv)-8)
			break
		}
		if i > 0 {
			s += " "
		}
		s += fmt.Sprintf("%d:%s", p.T, p.V)
	}
	return s + "]"
}

// Inflight describes the operation that had not returned when a crash image
// was cut. Only one operation is ever in flight (the driver is sequential).
type Inflight struct {
	Kind   string // "", "write", "delete", "other"
	Points []model.Point
	Keys   []string // delete targets
	Min    int64
	Max    int64
}

// CompareCrash checks a recovered store against the acknowledged model and
// the operation in flight at the crash: every acknowledged point is present
// with its value unless the in-flight operation may have replaced or deleted
// it; nothing is present that was never written.
func CompareCrash(acked *model.Shard, in *Inflight, obs Observed, via string) *Mismatch {
	// What the in-flight write would have produced, cell by cell.
	var after *model.Shard
	if in != nil && in.Kind == "write" {
		after = acked.Clone()
		after.Write(in.Points)
	}
	deleting := func(key string, t int64) bool {
		if in == nil || in.Kind != "delete" {
			return false
		}
		if t < in.Min || t > in.Max {
			return false
		}
		for _, k := range in.Keys {
			if k == key {
				return true
			}
		}
		return false
	}
	type cellKey struct {
		key, field string
		t          int64
	}
	seen := map[cellKey]bool{}
	var okeys []string
	for k := range obs {
		okeys = append(okeys, k)
	}
	sort.Strings(okeys)
	for _, key := range okeys {
		var fns []string
		for f := range obs[key] {
			fns = append(fns, f)
		}
		sort.Strings(fns)
		for _, f := range fns {
			got := obs[key][f]
			if mm := checkOrder(key, f, got, true, via); mm != nil {
				return mm
			}
			for _, p := range got {
				seen[cellKey{key, f, p.T}] = true
				var okOld, okNew bool
				if s := acked.Series[key]; s != nil {
					if v, ok := s.Fields[f][p.T]; ok && v.Equal(p.V) {
						okOld = true
					}
				}
				if after != nil {
					if s := after.Series[key]; s != nil {
						if v, ok := s.Fields[f][p.T]; ok && v.Equal(p.V) {
							okNew = true
						}
					}
				}
				if !okOld && !okNew {
					return &Mismatch{Class: "unexpected-data-after-crash", Detail: fmt.Sprintf("%s: %s %s t=%d value %s was never written there (acked=%s inflight=%s)", via, key, f, p.T, p.V, cell(acked, key, f, p.T), cell(after, key, f, p.T))}
				}
			}
		}
	}
	for _, key := range acked.SeriesKeys() {
		s := acked.Series[key]
		var fnames []string
		for f := range s.Fields {
			fnames = append(fnames, f)
		}
		sort.Strings(fnames)
		for _, f := range fnames {
			pts := s.Fields[f]
			var times []int64
			for t := range pts {
				times = append(times, t)
			}
			sort.Slice(times, func(i, j int) bool { return times[i] < times[j] })
			for _, t := range times {
				if seen[cellKey{key, f, t}] {
					continue
				}
				if deleting(key, t) {
					continue
				}
				return &Mismatch{Class: "acked-point-missing-after-crash", Detail: fmt.Sprintf("%s: %s %s t=%d acknowledged value %s is not returned after restart", via, key, f, t, pts[t])}
			}
		}
	}
	return nil
}

func cell(m *model.Shard, key, f string, t int64) string {
	if m == nil {
		return "-"
	}
	if s := m.Series[key]; s != nil {
		if v, ok := s.Fields[f][t]; ok {
			return v.String()
		}
	}
	return "absent"
}

// FromObserved rebuilds a model from what a recovered store returned, so that
// a further crash cycle is checked against what actually survived.
func FromObserved(obs Observed, prev *model.Shard) *model.Shard {
	m := model.NewShard()
	for key, fs := range obs {
		name, tags := ParseSeriesKey(key)
		for f, pts := range fs {
			for _, p := range pts {
				m.Write([]model.Point{{M: name, Tags: tags, T: p.T, Fields: []model.FieldValue{{Name: f, V: p.V}}}})
			}
		}
	}
	if prev != nil {
		for k := range prev.Tainted {
			m.Tainted[k] = true
		}
		for k := range prev.MaybeListed {
			if m.Series[k] == nil {
				m.MaybeListed[k] = true
			}
		}
	}
	return m
}

// sortedKeys: the oracle reports the first mismatch it meets, so it walks its
// sets in a fixed order (a seed is one execution).
func sortedKeys(m map[string]bool) []string {
	out := make([]string, 0, len(m))
	for k := range m {
		out = append(out, k)
	}
	sort.Strings(out)
	return out
}

// CompareListing checks the index listings against the model: every series
// with a point is listed; series emptied by a drop or a single covering delete
// are not; measurements, tag keys and tag values follow from the listed
// series.
func CompareListing(m *model.Shard, l *Listing) *Mismatch {
	must := map[string]bool{}
	for _, k := range m.SeriesKeys() {
		must[k] = true
	}
	listed := map[string]bool{}
	for _, k := range l.Series {
		listed[k] = true
		if !must[k] && !m.MaybeListed[k] {
			return &Mismatch{Class: "series-listed-without-data", Key: k, Detail: fmt.Sprintf("series %s is listed but has no points (listed=%v)", k, l.Series)}
		}
	}
	for _, k := range sortedKeys(must) {
		if !listed[k] {
			return &Mismatch{Class: "series-with-data-not-listed", Key: k, Detail: fmt.Sprintf("series %s has points but is not listed (listed=%v)", k, l.Series)}
		}
	}
	// Expected measurement / tag listings: lower bound from must, upper bound
	// from must ∪ maybe.
	type sets struct{ lo, hi map[string]bool }
	mk := func() sets { return sets{map[string]bool{}, map[string]bool{}} }
	meas := mk()
	tagKeys := map[string]sets{}
	tagVals := map[string]sets{}
	addKey := func(k string, lo bool) {
		name, tags := ParseSeriesKey(k)
		meas.hi[name] = true
		if lo {
			meas.lo[name] = true
		}
		for _, t := range tags {
			if _, ok := tagKeys[name]; !ok {
				tagKeys[name] = mk()
			}
			tagKeys[name].hi[t.K] = true
			id := name + "\x00" + t.K
			if _, ok := tagVals[id]; !ok {
				tagVals[id] = mk()
			}
			tagVals[id].hi[t.V] = true
			if lo {
				tagKeys[name].lo[t.K] = true
				tagVals[id].lo[t.V] = true
			}
		}
	}
	for k := range must {
		addKey(k, true)
	}
	for k := range m.MaybeListed {
		addKey(k, false)
	}
	within := func(what string, got []string, s sets) *Mismatch {
		g := map[string]bool{}
		for _, x := range got {
			g[x] = true
			if !s.hi[x] {
				return &Mismatch{Class: "listing-has-removed-item", Site: strings.SplitN(what, "(", 2)[0], Detail: fmt.Sprintf("%s lists %q which no remaining series has (got %v)", what, x, got)}
			}
		}
		for _, x := range sortedKeys(s.lo) {
			if !g[x] {
				return &Mismatch{Class: "listing-misses-item", Site: strings.SplitN(what, "(", 2)[0], Detail: fmt.Sprintf("%s does not list %q although a series with points has it (got %v)", what, x, got)}
			}
		}
		return nil
	}
	if mm := within("MeasurementNames", l.Measurements, meas); mm != nil {
		return mm
	}
	for _, name := range sortedKeys(meas.hi) {
		s, ok := tagKeys[name]
		if !ok {
			s = mk()
		}
		if mm := within("TagKeys("+name+")", l.TagKeys[name], s); mm != nil {
			return mm
		}
		for _, k := range sortedKeys(s.hi) {
			if mm := within("TagValues("+name+","+k+")", l.TagValues[name][k], tagVals[name+"\x00"+k]); mm != nil {
				return mm
			}
		}
	}
	var lnames []string
	for name := range l.TagKeys {
		lnames = append(lnames, name)
	}
	sort.Strings(lnames)
	for _, name := range lnames {
		if !meas.hi[name] && len(l.TagKeys[name]) > 0 {
			return &Mismatch{Class: "listing-has-removed-item", Detail: fmt.Sprintf("TagKeys lists measurement %q which has no series", name)}
		}
	}
	lo, hi := int64(len(must)), int64(len(must))
	for k := range m.MaybeListed {
		if !must[k] {
			hi++
		}
	}
	if l.Cardinality < lo || l.Cardinality > hi {
		return &Mismatch{Class: "series-cardinality-wrong", Detail: fmt.Sprintf("SeriesCardinality=%d, model has %d series with points (up to %d counting cumulatively emptied ones)", l.Cardinality, lo, hi)}
	}
	return nil
}
