// Package c19_concurrency decides C19: concurrent operation never corrupts
// state or loses writes. The test binary is built with the race detector.
//
// A run starts 2-5 client goroutines at a barrier; each executes its own
// plan-decided sequence of public operations on one shared object while the
// others do the same (which of them runs when is the Go scheduler's decision,
// perturbed by plan-decided pauses - this check samples schedules, it does not
// choose them). Four kinds of runs:
//
//	store   writers, readers, cache snapshots, compactions, deletes of other
//	        series, conflicting writes of different types to a new field - one
//	        shard of a real tsdb.Store
//	handoff several writers into a real hinted-handoff NodeProcessor while its
//	        retry loop delivers (simulated clock)
//	meta    the meta state machine applying commands while snapshots are taken
//	        and persisted and readers walk the published metadata
//	pool    clients of the inter-node connection pool (get, use, return, mark
//	        unusable, idle pruning on the simulated clock, pool close)
//
// Every operation is stamped with a global sequence number at invoke and at
// return. Oracles: the race detector's report (a report is a violation); a
// watchdog (clients that do not finish are a deadlock); no panic; a read
// contains every write acknowledged before it began and nothing that was never
// written; after the run every acknowledged write is readable, also after
// reopening; a field written with conflicting types ends with exactly one type
// and every acknowledged value; every handed-off point is delivered; a
// persisted metadata snapshot is internally consistent and equals the state
// after some prefix of the applied commands; the pool never exceeds its bound,
// never hands one connection to two clients and leaks no connection.
package c19_concurrency

import (
	"bytes"
	"errors"
	"fmt"
	"net"
	"os"
	"path/filepath"
	"reflect"
	"runtime"
	"sort"
	"strings"
	"sync"
	"sync/atomic"
	"testing"
	"time"

	"github.com/hashicorp/raft"
	"github.com/influxdata/influxdb/coordinator"
	"github.com/influxdata/influxdb/models"
	"github.com/influxdata/influxdb/pkg/verifhook"
	"github.com/influxdata/influxdb/services/hh"
	"github.com/influxdata/influxdb/services/meta"
	"github.com/influxdata/influxdb/tsdb"
	"pgregory.net/rapid"

	"verifsim/core"
	"verifsim/metacmd"
	"verifsim/model"
	"verifsim/storesim"
)

type cop struct {
	Kind  string
	N     int
	Pick  int
	Pause int // microseconds of real pause before the operation (schedule perturbation)
}

type plan struct {
	Mode    string
	Index   string
	// MaxLogFile: size at which the disk-based index swaps and compacts its
	// log file (0 = the default of 1 MiB, never reached here; a few hundred
	// bytes = a swap every few new series, while other clients insert)
	MaxLogFile int64
	Clients [][]cop
	Cmds    []metacmd.Cmd // meta mode
	PoolMax int
	Idle    int
}

func genOps(t *rapid.T, l string, kinds []string, max int) []cop {
	n := rapid.IntRange(1, max).Draw(t, l+".n")
	var ops []cop
	for i := 0; i < n; i++ {
		ops = append(ops, cop{
			Kind:  rapid.SampledFrom(kinds).Draw(t, fmt.Sprintf("%s.%d.kind", l, i)),
			N:     rapid.IntRange(1, 6).Draw(t, fmt.Sprintf("%s.%d.n", l, i)),
			Pick:  rapid.IntRange(0, 7).Draw(t, fmt.Sprintf("%s.%d.pick", l, i)),
			Pause: rapid.SampledFrom([]int{0, 0, 0, 50, 500}).Draw(t, fmt.Sprintf("%s.%d.pause", l, i)),
		})
	}
	return ops
}

func genPlan(t *rapid.T) interface{} {
	p := &plan{}
	p.Mode = rapid.SampledFrom([]string{"store", "store", "store", "handoff", "meta", "pool"}).Draw(t, "mode")
	p.Index = rapid.SampledFrom([]string{"inmem", "tsi1"}).Draw(t, "index")
	p.MaxLogFile = rapid.SampledFrom([]int64{0, 0, 256, 1024}).Draw(t, "maxlogfile")
	nc := rapid.IntRange(2, 5).Draw(t, "nclients")
	var kinds []string
	switch p.Mode {
	case "store":
		kinds = []string{"write", "write", "write", "read", "read", "snapshot", "compact", "delete-victim", "conflict", "conflict", "conflict-in-window", "newfields-in-window", "write-during-delete-window", "drop-victim-measurement"}
	case "handoff":
		kinds = []string{"write", "write", "sleep"}
	case "meta":
		kinds = []string{"snapshot", "read", "read"}
		nm := rapid.IntRange(5, 60).Draw(t, "ncmds")
		bias := metacmd.GenBias(t, "bias")
		if rapid.IntRange(0, 2).Draw(t, "bias.owners") == 0 {
			// commands that edit owner lists in place, while snapshots of
			// earlier versions are still being written out
			bias = metacmd.Bias{Owners: true}
			// ... on a cluster that has owner lists of two from the start
			for n := 0; n < 3; n++ {
				p.Cmds = append(p.Cmds, metacmd.CmdCreateDataNode(fmt.Sprintf("d%d:8086", n), fmt.Sprintf("d%d:8088", n)))
			}
			p.Cmds = append(p.Cmds, metacmd.CmdCreateDatabase("db0", nil), metacmd.CmdCreateRP("db0", "rp0", 0, time.Hour, 2, true),
				metacmd.CmdCreateShardGroup("db0", "rp0", time.Date(2000, 1, 1, 0, 0, 0, 0, time.UTC).UnixNano()),
				metacmd.CmdCreateShardGroup("db0", "rp0", time.Date(2000, 1, 1, 1, 0, 0, 0, time.UTC).UnixNano()))
		}
		for i := 0; i < nm; i++ {
			p.Cmds = append(p.Cmds, metacmd.GenCmdBiased(t, fmt.Sprintf("c%d", i), bias))
		}
	case "pool":
		kinds = []string{"get-put", "get-put", "get-unusable", "get-double-close", "sleep", "close-pool", "close-in-put-window"}
		p.PoolMax = rapid.IntRange(1, 3).Draw(t, "poolmax")
		p.Idle = rapid.SampledFrom([]int{0, 1, 5}).Draw(t, "idle")
	}
	for c := 0; c < nc; c++ {
		p.Clients = append(p.Clients, genOps(t, fmt.Sprintf("cl%d", c), kinds, 8))
	}
	return p
}

// ---- shared machinery ----

var seq atomic.Int64

type stamp struct{ inv, ret int64 }

// runClients starts one goroutine per client at a barrier and waits for all of
// them; a client that has not finished after the deadline is a hang.
func runClients(run *core.Run, n int, deadline time.Duration, body func(c int)) bool {
	var start, done sync.WaitGroup
	start.Add(1)
	done.Add(n)
	var panics atomic.Value
	for c := 0; c < n; c++ {
		go func(c int) {
			defer done.Done()
			defer func() {
				if r := recover(); r != nil {
					buf := make([]byte, 1<<16)
					buf = buf[:runtime.Stack(buf, false)]
					panics.Store(fmt.Sprintf("client %d: %v\n%s", c, r, buf))
				}
			}()
			start.Wait()
			body(c)
		}(c)
	}
	start.Done()
	fin := make(chan struct{})
	go func() { done.Wait(); close(fin) }()
	select {
	case <-fin:
	case <-time.After(deadline):
		buf := make([]byte, 1<<20)
		buf = buf[:runtime.Stack(buf, true)]
		var keep []string
		for _, g := range strings.Split(string(buf), "\n\n") {
			if strings.Contains(g, "/repo/") {
				keep = append(keep, g)
			}
		}
		s := strings.Join(keep, "\n\n")
		if len(s) > 40000 {
			s = s[:40000]
		}
		run.Fail("clients-never-finish", "", "concurrent clients did not finish within %v: deadlock or livelock\n%s", deadline, s)
		return false
	}
	if p := panics.Load(); p != nil {
		run.Fail("panic-under-concurrency", "", "%s", p)
		return false
	}
	return true
}

func pause(us int) {
	switch {
	case us == 0:
	case us < 100:
		runtime.Gosched()
	default:
		// no clock: simulated time stands still while goroutines are runnable
		for i := 0; i < us; i++ {
			runtime.Gosched()
		}
	}
}

// ---- race detector reports ----

var raceLog = os.Getenv("VERIF_RACE_LOG")

// raceReports returns what the race detector has written since the last call.
var raceSeen = map[string]int64{}

func raceReports() string {
	if raceLog == "" {
		return ""
	}
	m, _ := filepath.Glob(raceLog + ".*")
	var out []string
	for _, f := range m {
		b, err := os.ReadFile(f)
		if err != nil {
			continue
		}
		if int64(len(b)) > raceSeen[f] {
			out = append(out, string(b[raceSeen[f]:]))
			raceSeen[f] = int64(len(b))
		}
	}
	return strings.Join(out, "\n")
}

func raceSite(report string) string {
	// the first frame inside the repository names the site
	for _, line := range strings.Split(report, "\n") {
		line = strings.TrimSpace(line)
		if strings.HasPrefix(line, "github.com/influxdata/influxdb/") {
			f := strings.TrimPrefix(line, "github.com/influxdata/influxdb/")
			if i := strings.Index(f, "("); i > 0 && strings.HasSuffix(f, ")") {
				// drop the argument list
				if j := strings.LastIndex(f, "("); j > 0 {
					f = f[:j]
				}
			}
			return f
		}
	}
	return "unknown"
}

// ---- store mode ----

type wrec struct {
	series string
	field  string
	t      int64
	v      model.Value
	st     stamp
	acked  bool
}

func execStore(run *core.Run, p *plan) {
	sim, err := storesim.Open(filepath.Join(run.Scratch, "s"), storesim.Opts{Index: p.Index, MaxLogFile: p.MaxLogFile})
	if err != nil {
		run.Fail("harness-error", "", "open: %v", err)
		return
	}
	closed := false
	defer func() {
		if !closed {
			sim.Close()
		}
	}()
	const id = 1
	if err := sim.CreateShard(id); err != nil {
		run.Fail("harness-error", "", "CreateShard: %v", err)
		return
	}
	// victims: series nobody writes during the run; clients delete them
	var victims []models.Point
	for v := 0; v < 4; v++ {
		victims = append(victims, models.MustNewPoint("victim", models.NewTags(map[string]string{"v": fmt.Sprint(v)}), models.Fields{"f": float64(v)}, time.Unix(0, int64(v+1))))
		victims = append(victims, models.MustNewPoint(fmt.Sprintf("vm%d", v), nil, models.Fields{"f": float64(v)}, time.Unix(0, int64(v+1))))
	}
	if err := sim.Store.WriteToShard(id, victims); err != nil {
		run.Fail("harness-error", "", "victims: %v", err)
		return
	}
	nc := len(p.Clients)
	recs := make([][]*wrec, nc)
	type rrec struct {
		series, field string
		st            stamp
		got           []model.TV
		err           error
	}
	reads := make([][]*rrec, nc)
	var tcount, windowN atomic.Int64
	var windowMu sync.Mutex
	var windowFail atomic.Value
	kinds := []model.Kind{model.Float, model.Integer, model.String, model.Boolean}
	mkVal := func(k model.Kind, n int64) (model.Value, interface{}) {
		switch k {
		case model.Float:
			return model.Value{K: k, F: float64(n)}, float64(n)
		case model.Integer:
			return model.Value{K: k, I: n}, n
		case model.String:
			return model.Value{K: k, S: fmt.Sprint(n)}, fmt.Sprint(n)
		default:
			return model.Value{K: k, B: n%2 == 0}, n%2 == 0
		}
	}
	ok := runClients(run, nc, 90*time.Second, func(c int) {
		own := fmt.Sprintf("m,c=%d", c)
		for oi, o := range p.Clients[c] {
			pause(o.Pause)
			switch o.Kind {
			case "write":
				// own series or the shared one; timestamps are globally unique
				tag, key := fmt.Sprint(c), own
				if o.Pick%3 == 0 {
					tag, key = "shared", "m,c=shared"
				}
				var pts []models.Point
				var rs []*wrec
				for j := 0; j < o.N; j++ {
					t := tcount.Add(1)
					pts = append(pts, models.MustNewPoint("m", models.NewTags(map[string]string{"c": tag}), models.Fields{"f": float64(t)}, time.Unix(0, t)))
					rs = append(rs, &wrec{series: key, field: "f", t: t, v: model.Value{K: model.Float, F: float64(t)}})
				}
				inv := seq.Add(1)
				err := sim.Store.WriteToShard(id, pts)
				ret := seq.Add(1)
				for _, r := range rs {
					r.st, r.acked = stamp{inv, ret}, err == nil
					recs[c] = append(recs[c], r)
				}
				if err != nil {
					run.Logf("client %d op%d write: %v", c, oi, err)
				}
			case "conflict":
				// a new field written by several clients with different types
				k := kinds[(c+o.Pick)%len(kinds)]
				t := tcount.Add(1)
				mv, gv := mkVal(k, t)
				fname := fmt.Sprintf("x%d", o.Pick%2)
				pt := models.MustNewPoint("m", models.NewTags(map[string]string{"c": "conflict"}), models.Fields{fname: gv}, time.Unix(0, t))
				r := &wrec{series: "m,c=conflict", field: fname, t: t, v: mv}
				inv := seq.Add(1)
				err := sim.Store.WriteToShard(id, []models.Point{pt})
				r.st, r.acked = stamp{inv, seq.Add(1)}, err == nil
				recs[c] = append(recs[c], r)
				run.Logf("client %d op%d conflict write %s=%v (%v) at %d -> %v", c, oi, fname, gv, k, t, err)
			case "newfields-in-window":
				// Two writes add different (or the same) new fields to one
				// measurement; the first is parked between finding its field
				// missing and taking the field lock while the second completes.
				if !windowMu.TryLock() {
					continue
				}
				wn := windowN.Add(1)
				f1, f2 := fmt.Sprintf("n%da", wn), fmt.Sprintf("n%db", wn)
				k1, k2 := kinds[o.Pick%len(kinds)], kinds[(o.Pick+o.N)%len(kinds)]
				if o.N%3 == 0 {
					f2 = f1 // the same new field (same or conflicting type)
				}
				t1, t2 := tcount.Add(1), tcount.Add(1)
				mv1, gv1 := mkVal(k1, t1)
				mv2, gv2 := mkVal(k2, t2)
				p1 := models.MustNewPoint("m", models.NewTags(map[string]string{"c": "conflict"}), models.Fields{f1: gv1}, time.Unix(0, t1))
				p2 := models.MustNewPoint("m", models.NewTags(map[string]string{"c": "conflict"}), models.Fields{f2: gv2}, time.Unix(0, t2))
				r1 := &wrec{series: "m,c=conflict", field: f1, t: t1, v: mv1}
				r2 := &wrec{series: "m,c=conflict", field: f2, t: t2, v: mv2}
				var firedA atomic.Bool
				gid := curGoroutine()
				verifhook.SetYield(func(ev string, args ...interface{}) {
					if ev != "shard.field.create.locking" || curGoroutine() != gid || firedA.Swap(true) {
						return
					}
					r2.st.inv = seq.Add(1)
					err := sim.Store.WriteToShard(id, []models.Point{p2})
					r2.st.ret, r2.acked = seq.Add(1), err == nil
				})
				r1.st.inv = seq.Add(1)
				err := sim.Store.WriteToShard(id, []models.Point{p1})
				r1.st.ret, r1.acked = seq.Add(1), err == nil
				verifhook.SetYield(nil)
				windowMu.Unlock()
				recs[c] = append(recs[c], r1)
				if firedA.Load() {
					recs[c] = append(recs[c], r2)
					run.Probe("newfields-in-creation-window")
				}
			case "conflict-in-window":
				// This client's write is parked right after its fields were
				// validated; meanwhile another write creates the same new field
				// with another type; then this one continues.
				if !windowMu.TryLock() {
					continue
				}
				wn := windowN.Add(1)
				fname := fmt.Sprintf("w%d", wn)
				t1, t2 := tcount.Add(1), tcount.Add(1)
				k1, k2 := kinds[o.Pick%len(kinds)], kinds[(o.Pick+1+o.N%3)%len(kinds)]
				mv1, gv1 := mkVal(k1, t1)
				mv2, gv2 := mkVal(k2, t2)
				p1 := models.MustNewPoint("m", models.NewTags(map[string]string{"c": "conflict"}), models.Fields{fname: gv1}, time.Unix(0, t1))
				p2 := models.MustNewPoint("m", models.NewTags(map[string]string{"c": "conflict"}), models.Fields{fname: gv2}, time.Unix(0, t2))
				r1 := &wrec{series: "m,c=conflict", field: fname, t: t1, v: mv1}
				r2 := &wrec{series: "m,c=conflict", field: fname, t: t2, v: mv2}
				var firedA atomic.Bool
				gid := curGoroutine()
				var gid2 atomic.Value
				reached := make(chan struct{}) // the second write has registered its field
				release := make(chan struct{}) // the first write is through
				done2 := make(chan struct{})
				verifhook.SetYield(func(ev string, args ...interface{}) {
					// other clients pass here too: only the two writes of this window act
					switch {
					case ev == "shard.fields.validated" && curGoroutine() == gid && !firedA.Swap(true):
						// parked after validation: the other write starts, creates
						// the field with its type and is parked before its value
						// reaches the cache
						go func() {
							defer close(done2)
							gid2.Store(curGoroutine())
							r2.st.inv = seq.Add(1)
							err := sim.Store.WriteToShard(id, []models.Point{p2})
							r2.st.ret, r2.acked = seq.Add(1), err == nil
						}()
						select {
						case <-reached:
						case <-done2:
						}
					case ev == "shard.fields.created" && gid2.Load() != nil && curGoroutine() == gid2.Load().(string):
						close(reached)
						<-release
					}
				})
				r1.st.inv = seq.Add(1)
				err := sim.Store.WriteToShard(id, []models.Point{p1})
				r1.st.ret, r1.acked = seq.Add(1), err == nil
				close(release)
				if firedA.Load() {
					<-done2
				}
				verifhook.SetYield(nil)
				windowMu.Unlock()
				recs[c] = append(recs[c], r1)
				if fired := firedA.Load(); fired {
					recs[c] = append(recs[c], r2)
					run.Probe("conflict-in-validation-window")
				}
			case "read":
				tag, key := fmt.Sprint((c+o.Pick)%nc), ""
				if o.Pick%3 == 0 {
					tag = "shared"
				}
				key = "m,c=" + tag
				r := &rrec{series: key, field: "f"}
				r.st.inv = seq.Add(1)
				obs, err := sim.ReadCursors(id, storesim.FullRange, []storesim.SeriesField{{M: "m", Tags: []model.Tag{{K: "c", V: tag}}, Field: "f"}})
				r.st.ret = seq.Add(1)
				r.err = err
				if err == nil {
					r.got = obs[key]["f"]
				}
				reads[c] = append(reads[c], r)
			case "snapshot":
				if err := sim.Snapshot(id); err != nil {
					run.Logf("client %d op%d snapshot: %v", c, oi, err)
				}
			case "compact":
				kind := []storesim.CompactKind{storesim.Level1, storesim.Level2, storesim.Full}[o.Pick%3]
				if _, err := sim.Compact(id, kind, o.Pick); err != nil {
					run.Logf("client %d op%d compact: %v", c, oi, err)
				}
			case "write-during-delete-window":
				// A DROP SERIES with a tag predicate is in flight - its guard is
				// installed and it waits for a write (W1) that is parked inside
				// the shard - when a write (W2) to a series the predicate selects
				// arrives. W2 has to wait for the delete; if it does not, it is
				// parked between registering its series and storing its point
				// while the delete runs to completion. Either way W2 returns
				// after the delete has, and its point was stored after the
				// delete: it must be readable.
				if !windowMu.TryLock() {
					continue
				}
				wn := windowN.Add(1)
				vic := fmt.Sprintf("wv%d", wn)
				t1, t2 := tcount.Add(1), tcount.Add(1)
				p1 := models.MustNewPoint("wm", models.NewTags(map[string]string{"c": fmt.Sprintf("w1_%d", wn)}), models.Fields{"f": float64(t1)}, time.Unix(0, t1))
				// the selected series carries another tag that sorts before the predicate's
				p2 := models.MustNewPoint("wm", models.NewTags(map[string]string{"a": "1", "c": vic}), models.Fields{"f": float64(t2)}, time.Unix(0, t2))
				var g1, g2 atomic.Value
				reached1, release1 := make(chan struct{}), make(chan struct{})
				reached2, release2 := make(chan struct{}), make(chan struct{})
				var once1, once2 sync.Once
				guardIn := make(chan struct{})
				var onceG sync.Once
				verifhook.SetYield(func(ev string, args ...interface{}) {
					if ev == "store.delete.guard.installed" {
						// (fired on the store's per-shard goroutine; other clients'
						// deletes concern other measurements)
						if len(args) > 1 {
							if names, ok := args[1].([]string); ok && len(names) == 1 && names[0] == "wm" {
								onceG.Do(func() { close(guardIn) })
							}
						}
						return
					}
					if ev != "shard.fields.validated" {
						return
					}
					me := curGoroutine()
					if v := g1.Load(); v != nil && v.(string) == me {
						once1.Do(func() { close(reached1) })
						<-release1
					} else if v := g2.Load(); v != nil && v.(string) == me {
						once2.Do(func() { close(reached2) })
						<-release2
					}
				})
				done1, doneD, done2 := make(chan error, 1), make(chan error, 1), make(chan error, 1)
				go func() { g1.Store(curGoroutine()); done1 <- sim.Store.WriteToShard(id, []models.Point{p1}) }()
				<-reached1
				go func() { doneD <- sim.DeleteWhere([]string{"wm"}, fmt.Sprintf("c = '%s'", vic)) }()
				// the delete installs its guard and then waits for W1
				for i := 0; i < 20000; i++ {
					select {
					case <-guardIn:
						i = 20000
					default:
						runtime.Gosched()
					}
				}
				go func() { g2.Store(curGoroutine()); done2 <- sim.Store.WriteToShard(id, []models.Point{p2}) }()
				parked2 := false
				for i := 0; i < 400 && !parked2; i++ {
					select {
					case <-reached2:
						parked2 = true
					default:
						runtime.Gosched()
					}
				}
				close(release1)
				e1 := <-done1
				// If W2 got into the shard before the delete had installed its
				// guard (the harness cannot see that moment), the delete waits
				// for it as for W1: nothing to judge then, W2 is let go.
				var eD error
				early := false
				for i := 0; ; i++ {
					select {
					case eD = <-doneD:
					default:
						if i < 2000000 {
							runtime.Gosched()
							continue
						}
						early = true
					}
					break
				}
				close(release2)
				if early {
					eD = <-doneD
				}
				e2 := <-done2
				verifhook.SetYield(nil)
				windowMu.Unlock()
				run.Logf("client %d op%d write-during-delete-window: W1 %v, delete %v, W2 %v (W2 ran past the delete's guard: %v; entered before the guard: %v)", c, oi, e1, eD, e2, parked2, early)
				if e1 == nil && eD == nil && e2 == nil && !early {
					// through the query path: measurement and series come from the index
					obs, err := sim.ReadIterators(id, storesim.FullRange, []string{"wm"})
					key := fmt.Sprintf("wm,a=1,c=%s", vic)
					if err != nil || len(obs[key]["f"]) != 1 {
						windowFail.Store(fmt.Sprintf("client %d op%d: a write to %s was acknowledged after a DROP SERIES ... WHERE c = '%s' had completed (the write arrived while the delete was in flight), and its point cannot be read: got %v (err %v); the write ran past the delete's guard: %v", c, oi, key, vic, obs[key]["f"], err, parked2))
					}
					run.Probe("write-during-delete-window")
				}
			case "delete-victim":
				if err := sim.DeleteWhere([]string{"victim"}, fmt.Sprintf("v = '%d'", o.Pick%4)); err != nil {
					run.Logf("client %d op%d delete victim: %v", c, oi, err)
				}
			case "drop-victim-measurement":
				if err := sim.DropMeasurement(fmt.Sprintf("vm%d", o.Pick%4)); err != nil {
					run.Logf("client %d op%d drop measurement: %v", c, oi, err)
				}
			}
			core.Progress()
		}
	})
	if rep := raceReports(); rep != "" {
		run.Fail("data-race", raceSite(rep), "the race detector reported during a store run:\n%s", clipS(rep, 6000))
		return
	}
	if !ok {
		return
	}
	if v := windowFail.Load(); v != nil {
		run.Fail("acknowledged-write-lost", "write-during-delete-window", "%s", v)
		return
	}
	// oracles over the recorded history
	written := map[string]map[int64]*wrec{} // series/field -> t -> record
	for c := range recs {
		for _, r := range recs[c] {
			k := r.series + "/" + r.field
			if written[k] == nil {
				written[k] = map[int64]*wrec{}
			}
			written[k][r.t] = r
		}
	}
	nreads := 0
	for c := range reads {
		for _, r := range reads[c] {
			if r.err != nil {
				run.Fail("read-failed-under-concurrency", "", "client %d: read of %s: %v", c, r.series, r.err)
				return
			}
			nreads++
			k := r.series + "/" + r.field
			got := map[int64]model.Value{}
			for _, tv := range r.got {
				if _, dup := got[tv.T]; dup {
					run.Fail("read-returns-duplicate", "", "client %d: read of %s returned timestamp %d twice", c, r.series, tv.T)
					return
				}
				got[tv.T] = tv.V
				w := written[k][tv.T]
				if w == nil || !w.v.Equal(tv.V) {
					run.Fail("read-returns-unwritten-data", "", "client %d: read of %s returned (%d, %v), which no client wrote", c, r.series, tv.T, tv.V)
					return
				}
				if w.st.inv > r.st.ret {
					run.Fail("read-returns-future-write", "", "client %d: read of %s returned (%d), whose write began after the read had returned", c, r.series, tv.T)
					return
				}
			}
			for t, w := range written[k] {
				if w.acked && w.st.ret < r.st.inv {
					if _, ok := got[t]; !ok {
						run.Fail("read-misses-acknowledged-write", "", "client %d: read of %s (events %d-%d) does not contain the point at %d whose write was acknowledged at event %d", c, r.series, r.st.inv, r.st.ret, t, w.st.ret)
						return
					}
				}
			}
		}
	}
	run.ProbeN("concurrent-read-checked", nreads)
	final := func(what string) bool {
		for k, ws := range written {
			parts := strings.SplitN(k, "/", 2)
			tag := strings.TrimPrefix(parts[0], "m,c=")
			obs, err := sim.ReadCursors(id, storesim.FullRange, []storesim.SeriesField{{M: "m", Tags: []model.Tag{{K: "c", V: tag}}, Field: parts[1]}})
			if err != nil {
				run.Fail("read-failed-under-concurrency", what, "%s: read of %s: %v", what, k, err)
				return false
			}
			got := map[int64]model.Value{}
			for _, tv := range obs[parts[0]][parts[1]] {
				got[tv.T] = tv.V
			}
			var typ *model.Kind
			for t, w := range ws {
				v, ok := got[t]
				if w.acked && (!ok || !v.Equal(w.v)) {
					run.Fail("acknowledged-write-lost", what, "%s: the acknowledged write (%s %s @%d = %v) reads back as %v (present=%v)", what, parts[0], parts[1], t, w.v, v, ok)
					return false
				}
				if w.acked {
					if typ != nil && *typ != w.v.K {
						run.Fail("field-has-two-types", what, "%s: field %s of %s holds acknowledged values of types %v and %v", what, parts[1], parts[0], *typ, w.v.K)
						return false
					}
					kk := w.v.K
					typ = &kk
				}
			}
			for t, v := range got {
				if w := ws[t]; w == nil || !w.v.Equal(v) {
					run.Fail("read-returns-unwritten-data", what, "%s: %s holds (%d, %v), which no client wrote", what, k, t, v)
					return false
				}
			}
		}
		// the same through the query path, which finds the series in the index
		// (a read by series key does not consult it)
		obsI, err := sim.ReadIterators(id, storesim.FullRange, []string{"m"})
		if err != nil {
			run.Fail("read-failed-under-concurrency", what, "%s: query over measurement m: %v", what, err)
			return false
		}
		for k, ws := range written {
			parts := strings.SplitN(k, "/", 2)
			got := map[int64]bool{}
			for _, tv := range obsI[parts[0]][parts[1]] {
				got[tv.T] = true
			}
			for t, w := range ws {
				if w.acked && !got[t] {
					run.Fail("acknowledged-write-invisible-to-queries", what, "%s: the acknowledged write (%s %s @%d = %v) is returned by a read by series key but not by a query over the measurement: the series is missing from the index", what, parts[0], parts[1], t, w.v)
					return false
				}
			}
		}
		run.Probe("final-state-checked-through-the-index")
		return true
	}
	if !final("after the run") {
		return
	}
	sim.Close()
	closed = true
	sim2, err := storesim.Open(sim.Root, sim.Opts)
	if err != nil {
		run.Fail("store-open-failed", "", "reopen after a concurrent run: %v", err)
		return
	}
	sim = sim2
	closed = false
	if !final("after reopening") {
		return
	}
	if rep := raceReports(); rep != "" {
		run.Fail("data-race", raceSite(rep), "the race detector reported during a store run:\n%s", clipS(rep, 6000))
		return
	}
	run.Probe("store-run")
}

// curGoroutine identifies the calling goroutine (the yield handler must only
// act for the client that installed it).
func curGoroutine() string {
	b := make([]byte, 64)
	b = b[:runtime.Stack(b, false)]
	f := strings.Fields(string(b))
	if len(f) > 1 {
		return f[1]
	}
	return ""
}

func clipS(s string, n int) string {
	if len(s) > n {
		return s[:n] + "..."
	}
	return s
}

// ---- handoff mode (simulated clock) ----

type hhTarget struct {
	mu      sync.Mutex
	applied map[string]int
	calls   int
}

func (t *hhTarget) WriteShardBinary(shardID, ownerID uint64, points [][]byte) error {
	t.mu.Lock()
	defer t.mu.Unlock()
	t.calls++
	if t.calls%5 == 0 {
		return errors.New("dial tcp: connection refused")
	}
	for _, p := range points {
		t.applied[string(p)]++
	}
	return nil
}

type hhMeta struct{}

func (hhMeta) DataNode(id uint64) (*meta.NodeInfo, error) { return &meta.NodeInfo{ID: id}, nil }

func execHandoff(run *core.Run, p *plan) {
	cfg := hh.NewConfig()
	cfg.Enabled = true
	tg := &hhTarget{applied: map[string]int{}}
	np := hh.NewNodeProcessor(cfg, 2, 7, filepath.Join(run.Scratch, "hh"), tg, hhMeta{})
	if err := np.Open(); err != nil {
		run.Fail("harness-error", "", "Open: %v", err)
		return
	}
	defer np.Close()
	nc := len(p.Clients)
	accepted := make([][][]byte, nc)
	var n atomic.Int64
	ok := runClients(run, nc, 10*time.Minute, func(c int) {
		for _, o := range p.Clients[c] {
			switch o.Kind {
			case "sleep":
				time.Sleep(time.Duration(o.N*300) * time.Millisecond)
			case "write":
				var pts []models.Point
				for j := 0; j < o.N; j++ {
					k := n.Add(1)
					pts = append(pts, models.MustNewPoint("m", models.NewTags(map[string]string{"k": fmt.Sprint(k)}), models.Fields{"v": k}, time.Unix(0, k)))
				}
				if err := np.WriteShard(pts); err != nil {
					run.Logf("client %d handoff write: %v", c, err)
					continue
				}
				for _, pt := range pts {
					b, _ := pt.MarshalBinary()
					accepted[c] = append(accepted[c], b)
				}
			}
			core.Progress()
		}
	})
	if rep := raceReports(); rep != "" {
		run.Fail("data-race", raceSite(rep), "the race detector reported during a handoff run:\n%s", clipS(rep, 6000))
		return
	}
	if !ok {
		return
	}
	time.Sleep(10 * time.Duration(cfg.RetryMaxInterval))
	tg.mu.Lock()
	defer tg.mu.Unlock()
	total, missing := 0, 0
	for c := range accepted {
		for _, b := range accepted[c] {
			total++
			if tg.applied[string(b)] == 0 {
				missing++
			}
		}
	}
	if missing > 0 {
		run.Fail("handoff-write-lost-under-concurrency", "", "%d of %d points accepted by concurrent handoff writers never reached the (mostly healthy) target within %v of simulated time", missing, total, 10*time.Duration(cfg.RetryMaxInterval))
		return
	}
	run.ProbeN("handoff-points-delivered", total)
	run.Probe("handoff-run")
}

// ---- meta mode ----

func execMeta(run *core.Run, p *plan) {
	mc := meta.NewConfig()
	mc.Dir = filepath.Join(run.Scratch, "meta")
	fsm := meta.VerifNewFSM(mc)
	// reference: the canonical state after every prefix, computed serially first
	ref := meta.VerifNewFSM(mc)
	prefix := map[string]int{}
	prefix[metacmd.CanonicalFull(ref.Data())] = 0
	for i, cm := range p.Cmds {
		ref.Apply(&raft.Log{Index: uint64(i + 1), Term: 1, Type: raft.LogCommand, Data: cm.Data})
		prefix[metacmd.CanonicalFull(ref.Data())] = i + 1
	}
	type snap struct {
		b   []byte
		err error
	}
	nc := len(p.Clients)
	snaps := make([][]snap, nc+1)
	ok := runClients(run, nc+1, 90*time.Second, func(c int) {
		if c == nc {
			// the applier: raft applies commands one after another
			for i, cm := range p.Cmds {
				fsm.Apply(&raft.Log{Index: uint64(i + 1), Term: 1, Type: raft.LogCommand, Data: cm.Data})
				if i%3 == 0 {
					runtime.Gosched()
				}
			}
			return
		}
		for _, o := range p.Clients[c] {
			pause(o.Pause)
			switch o.Kind {
			case "snapshot":
				s, err := fsm.Snapshot()
				if err != nil {
					snaps[c] = append(snaps[c], snap{nil, err})
					continue
				}
				pause(o.Pause)
				var sink memSink
				err = s.Persist(&sink)
				s.Release()
				snaps[c] = append(snaps[c], snap{sink.Bytes(), err})
			case "read":
				// what readers of the published metadata do: walk it
				d, err := fsm.SnapshotData() // copy taken under the store's lock, as the service's handlers do
				if err != nil {
					continue
				}
				n := 0
				for _, db := range d.Databases {
					for _, rp := range db.RetentionPolicies {
						for _, sg := range rp.ShardGroups {
							n += len(sg.Shards)
						}
					}
				}
				for _, u := range d.Users {
					n += len(u.Privileges)
				}
				_ = d.Clone()
				_ = n
			}
			core.Progress()
		}
	})
	if rep := raceReports(); rep != "" {
		run.Fail("data-race", raceSite(rep), "the race detector reported during a metadata run:\n%s", clipS(rep, 6000))
		return
	}
	if !ok {
		return
	}
	if got := metacmd.CanonicalFull(fsm.Data()); got != metacmd.CanonicalFull(ref.Data()) {
		run.Fail("metadata-differs-from-serial-application", "", "applying the commands while snapshots and readers ran gave a different state than applying them alone")
		return
	}
	for c := range snaps {
		for _, s := range snaps[c] {
			if s.err != nil {
				run.Fail("snapshot-failed-under-concurrency", "", "snapshot: %v", s.err)
				return
			}
			var d meta.Data
			if err := d.UnmarshalBinary(s.b); err != nil {
				run.Fail("snapshot-undecodable", "", "a snapshot persisted while commands were applied does not decode: %v", err)
				return
			}
			if _, ok := prefix[metacmd.CanonicalFull(&d)]; !ok {
				run.Fail("snapshot-is-no-prefix-state", "", "a snapshot persisted while commands were applied equals the state after no prefix of the command sequence (it mixes two states):\n%s", clipS(metacmd.CanonicalFull(&d), 1500))
				return
			}
			run.Probe("concurrent-snapshot-checked")
		}
	}
	run.Probe("meta-run")
}

type memSink struct{ bytes.Buffer }

func (m *memSink) ID() string    { return "mem" }
func (m *memSink) Cancel() error { return nil }
func (m *memSink) Close() error  { return nil }

// ---- pool mode (simulated clock) ----

type pconn struct {
	net.Conn
	id     int
	closed atomic.Bool
	owner  atomic.Int32 // client holding it + 1, 0 = nobody
}

type noConn struct{}

func (noConn) Read(b []byte) (int, error)         { return 0, errors.New("not a real connection") }
func (noConn) Write(b []byte) (int, error)        { return len(b), nil }
func (noConn) Close() error                       { return nil }
func (noConn) LocalAddr() net.Addr                { return nil }
func (noConn) RemoteAddr() net.Addr               { return nil }
func (noConn) SetDeadline(t time.Time) error      { return nil }
func (noConn) SetReadDeadline(t time.Time) error  { return nil }
func (noConn) SetWriteDeadline(t time.Time) error { return nil }

func (p *pconn) Close() error {
	p.closed.Store(true)
	return nil
}

func execPool(run *core.Run, p *plan) {
	var mu sync.Mutex
	var all []*pconn
	live := func() int {
		n := 0
		for _, c := range all {
			if !c.closed.Load() {
				n++
			}
		}
		return n
	}
	var maxLive int
	factory := func() (net.Conn, error) {
		mu.Lock()
		defer mu.Unlock()
		c := &pconn{Conn: noConn{}, id: len(all)}
		all = append(all, c)
		if n := live(); n > maxLive {
			maxLive = n
		}
		return c, nil
	}
	pool, err := coordinator.NewBoundedPool(0, p.PoolMax, time.Duration(p.Idle)*time.Second, factory)
	if err != nil {
		run.Fail("harness-error", "", "NewBoundedPool: %v", err)
		return
	}
	var shared atomic.Value
	var windowMu sync.Mutex
	defer verifhook.SetYield(nil)
	nc := len(p.Clients)
	ok := runClients(run, nc, 30*time.Minute, func(c int) {
		for oi, o := range p.Clients[c] {
			switch o.Kind {
			case "sleep":
				time.Sleep(time.Duration(o.N) * 700 * time.Millisecond)
			case "close-in-put-window":
				// The pool is closed while this client's connection is on its
				// way back into it: between put's "is the pool still open"
				// and its hand-over of the connection.
				if !windowMu.TryLock() {
					continue
				}
				conn, err := pool.Get()
				if err != nil {
					windowMu.Unlock()
					continue
				}
				var fired atomic.Bool
				gid := curGoroutine()
				closed := make(chan struct{})
				verifhook.SetYield(func(ev string, args ...interface{}) {
					if ev != "pool.put.sending" || curGoroutine() != gid || fired.Swap(true) {
						return
					}
					go func() { pool.Close(); close(closed) }()
					for i := 0; i < 300; i++ {
						select {
						case <-closed:
							return
						default:
							runtime.Gosched()
						}
					}
				})
				conn.Close()
				verifhook.SetYield(nil)
				if fired.Load() {
					<-closed
					run.Probe("pool-closed-in-put-window")
				}
				windowMu.Unlock()
			case "close-pool":
				if o.Pick == 0 {
					pool.Close()
					run.Probe("pool-closed-under-load")
				}
			default:
				t0 := time.Now()
				conn, err := pool.Get()
				if err != nil {
					if d := time.Since(t0); d > coordinator.PoolWaitTimeout+5*time.Second {
						shared.Store(fmt.Sprintf("client %d op%d: Get returned an error only after %v (limit %v): %v", c, oi, d, coordinator.PoolWaitTimeout, err))
					}
					continue
				}
				// the underlying connection
				under := findUnder(conn)
				if under != nil {
					if !under.owner.CompareAndSwap(0, int32(c+1)) {
						shared.Store(fmt.Sprintf("client %d op%d: Get handed out connection #%d while client %d still holds it", c, oi, under.id, under.owner.Load()-1))
					}
					if under.closed.Load() {
						shared.Store(fmt.Sprintf("client %d op%d: Get handed out connection #%d, which is closed", c, oi, under.id))
					}
				}
				time.Sleep(time.Duration(o.N) * 100 * time.Millisecond)
				if under != nil {
					under.owner.Store(0)
				}
				switch o.Kind {
				case "get-unusable":
					coordinator.MarkUnusable(conn)
					conn.Close()
				case "get-double-close":
					conn.Close()
					conn.Close()
				default:
					conn.Close()
				}
			}
			core.Progress()
		}
	})
	if rep := raceReports(); rep != "" {
		run.Fail("data-race", raceSite(rep), "the race detector reported during a connection-pool run:\n%s", clipS(rep, 6000))
		return
	}
	if !ok {
		return
	}
	if s := shared.Load(); s != nil {
		run.Fail("pool-misbehaves-under-concurrency", "", "%s", s)
		return
	}
	mu.Lock()
	ml := maxLive
	mu.Unlock()
	if ml > p.PoolMax {
		run.Fail("pool-exceeds-bound", "", "%d connections were open at once, the pool's bound is %d", ml, p.PoolMax)
		return
	}
	pool.Close()
	time.Sleep(time.Duration(p.Idle+2) * time.Second)
	mu.Lock()
	defer mu.Unlock()
	if n := live(); n > 0 {
		run.Fail("pool-leaks-connection", "", "%d of %d connections are still open after every client returned its connection and the pool was closed", n, len(all))
		return
	}
	run.Probe("pool-run")
}

// findUnder digs the embedded net.Conn out of the pool's wrapper (an
// unexported struct that embeds net.Conn as the field Conn).
func findUnder(c net.Conn) *pconn {
	v := reflect.ValueOf(c)
	if v.Kind() == reflect.Ptr {
		v = v.Elem()
	}
	if v.Kind() != reflect.Struct {
		return nil
	}
	f := v.FieldByName("Conn")
	if !f.IsValid() || !f.CanInterface() {
		return nil
	}
	p, _ := f.Interface().(*pconn)
	return p
}

func exec(run *core.Run, pl interface{}) {
	p := pl.(*plan)
	// a report that arrived after the previous run had been judged (a
	// background goroutine it left behind, or its close path)
	if rep := raceReports(); rep != "" {
		run.Fail("data-race", raceSite(rep), "the race detector reported between two runs (close path or a background goroutine of the run before):\n%s", clipS(rep, 6000))
		return
	}
	defer func() {
		if !run.Failed() {
			if rep := raceReports(); rep != "" {
				run.Fail("data-race", raceSite(rep), "the race detector reported while the run was closing down:\n%s", clipS(rep, 6000))
			}
		}
	}()
	switch p.Mode {
	case "store":
		execStore(run, p)
	case "handoff":
		execHandoff(run, p)
	case "meta":
		execMeta(run, p)
	case "pool":
		execPool(run, p)
	}
	nops := 0
	for _, c := range p.Clients {
		nops += len(c)
	}
	run.NonTrivial = nops >= 4
	run.Digest = fmt.Sprintf("%s/%d/%d", p.Mode, len(p.Clients), nops)
}

func describe(pl interface{}) interface{} {
	p := pl.(*plan)
	var cl []string
	for _, c := range p.Clients {
		var s []string
		for _, o := range c {
			s = append(s, fmt.Sprintf("%s(%d,%d,%dus)", o.Kind, o.N, o.Pick, o.Pause))
		}
		cl = append(cl, strings.Join(s, " "))
	}
	sort.Strings(nil)
	return map[string]interface{}{"mode": p.Mode, "index": p.Index, "max_log_file": p.MaxLogFile, "clients": cl, "commands": len(p.Cmds), "pool_max": p.PoolMax, "idle_s": p.Idle}
}

var _ = tsdb.ErrShardNotFound

func TestC19(t *testing.T) {
	core.Main(t, core.Harness{
		Property:       "C19",
		Gen:            genPlan,
		Exec:           exec,
		Bubble:         true,
		Warmup:         func() { storesim.Warmup() },
		Describe:       describe,
		RequiredProbes: []string{"newfields-in-creation-window", "conflict-in-validation-window", "store-run", "handoff-run", "meta-run", "pool-run", "pool-closed-in-put-window", "write-during-delete-window", "concurrent-read-checked", "concurrent-snapshot-checked", "handoff-points-delivered"},
		Real:           []string{"tsdb.Store/Shard/tsm1 engine, cache, file store, compactor, index (inmem, tsi1) under real goroutines", "hh.NodeProcessor and queue with its retry loop", "meta store state machine (Apply, Snapshot, Persist) and Data.Clone", "coordinator bounded connection pool", "the Go race detector (binary built with -race)"},
		Stub:           []string{"handoff target, pool connections, raft (commands are applied by one goroutine in order)"},
		Assumptions:    []string{"which goroutine runs when is decided by the Go scheduler: a seed fixes the operations, their order per client and the pauses, not the interleaving; a violation is replayed by re-running the plan several times"},
		Rule:           "a run = 2-5 concurrent clients with 1-8 operations each on a shared store shard / handoff processor / metadata state machine / connection pool; non-trivial = at least 4 operations in total",
	})
}
