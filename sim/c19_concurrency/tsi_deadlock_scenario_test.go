package c19_concurrency

import (
	"fmt"
	"os"
	"testing"
	"time"

	"github.com/influxdata/influxdb/models"
	"github.com/influxdata/influxdb/tsdb"
	_ "github.com/influxdata/influxdb/tsdb/engine"
	_ "github.com/influxdata/influxdb/tsdb/index"
)

func TestTsiDeleteDeadlock(t *testing.T) {
	dir, _ := os.MkdirTemp("/dev/shm", "tsi")
	defer os.RemoveAll(dir)
	s := tsdb.NewStore(dir)
	s.EngineOptions.IndexVersion = "tsi1"
	s.EngineOptions.Config.WALDir = dir + "/wal"
	s.EngineOptions.Config.MaxIndexLogFileSize = 1
	s.EngineOptions.MonitorDisabled = true
	s.EngineOptions.CompactionDisabled = true
	if err := s.Open(); err != nil {
		t.Fatal(err)
	}
	defer s.Close()
	if err := s.CreateShard("db", "rp", 1, true); err != nil {
		t.Fatal(err)
	}
	w := func(i int) {
		p := models.MustNewPoint("m", models.NewTags(map[string]string{"a": fmt.Sprint(i)}), models.Fields{"f": 1.0}, time.Unix(int64(i), 0))
		if err := s.WriteToShard(1, []models.Point{p}); err != nil {
			t.Fatal(err)
		}
	}
	for i := 1; i < 40; i++ {
		w(i)
	}
	time.Sleep(200 * time.Millisecond)
	sh := s.Shard(1)
	idx, _ := sh.Index()
	sfile, _ := sh.SeriesFile()
	is := tsdb.IndexSet{Indexes: []tsdb.Index{idx}, SeriesFile: sfile}
	// what Store.DeleteSeries does first: an iterator over the matching series
	itr, err := is.MeasurementSeriesByExprIterator([]byte("m"), nil)
	if err != nil || itr == nil {
		t.Fatal(err, itr)
	}
	// a concurrent write rolls the index log: its compaction starts
	for i := 40; i < 80; i++ {
		w(i)
	}
	time.Sleep(300 * time.Millisecond)
	done := make(chan error, 1)
	go func() {
		done <- sh.DeleteSeriesRange(tsdb.NewSeriesIteratorAdapter(sfile, itr), 0, 100)
		itr.Close()
	}()
	select {
	case err := <-done:
		t.Logf("delete returned: %v", err)
	case <-time.After(5 * time.Second):
		t.Fatal("DELETE hangs: it waits for the index compaction, which waits for the delete's iterator")
	}
}
