// Package model holds the small executable reference models the simulator's
// oracles compare the real code against.
package model

import (
	"fmt"
	"math"
	"sort"
	"strings"
)

// Kind is a field type.
type Kind byte

const (
	Float    Kind = 'f'
	Integer  Kind = 'i'
	Unsigned Kind = 'u'
	String   Kind = 's'
	Boolean  Kind = 'b'
)

// Value is one typed field value. Floats are compared by bit pattern.
type Value struct {
	K Kind
	F float64
	I int64
	U uint64
	S string
	B bool
}

func (v Value) Equal(o Value) bool {
	if v.K != o.K {
		return false
	}
	switch v.K {
	case Float:
		return math.Float64bits(v.F) == math.Float64bits(o.F)
	case Integer:
		return v.I == o.I
	case Unsigned:
		return v.U == o.U
	case String:
		return v.S == o.S
	case Boolean:
		return v.B == o.B
	}
	return false
}

func (v Value) String() string {
	switch v.K {
	case Float:
		return fmt.Sprintf("f:%v(%#x)", v.F, math.Float64bits(v.F))
	case Integer:
		return fmt.Sprintf("i:%d", v.I)
	case Unsigned:
		return fmt.Sprintf("u:%d", v.U)
	case String:
		return fmt.Sprintf("s:%q", v.S)
	case Boolean:
		return fmt.Sprintf("b:%v", v.B)
	}
	return "?"
}

// Tag is a key/value pair.
type Tag struct{ K, V string }

// Point is a generated point: measurement, tags (any order), fields, time.
type Point struct {
	M      string
	Tags   []Tag
	Fields []FieldValue
	T      int64
}

// FieldValue is a named value.
type FieldValue struct {
	Name string
	V    Value
}

// SeriesKey returns the canonical series key (tags sorted by key). Names in
// the simulator's alphabets need no escaping.
func SeriesKey(m string, tags []Tag) string {
	ts := append([]Tag(nil), tags...)
	sort.Slice(ts, func(i, j int) bool { return ts[i].K < ts[j].K })
	var b strings.Builder
	b.WriteString(m)
	for _, t := range ts {
		if t.V == "" {
			continue
		}
		b.WriteByte(',')
		b.WriteString(t.K)
		b.WriteByte('=')
		b.WriteString(t.V)
	}
	return b.String()
}

// Series is the model state of one series.
type Series struct {
	M      string
	Tags   []Tag // sorted, empty values removed
	Fields map[string]map[int64]Value
}

func (s *Series) Empty() bool {
	for _, f := range s.Fields {
		if len(f) > 0 {
			return false
		}
	}
	return true
}

func (s *Series) clone() *Series {
	c := &Series{M: s.M, Tags: s.Tags, Fields: make(map[string]map[int64]Value, len(s.Fields))}
	for k, f := range s.Fields {
		m := make(map[int64]Value, len(f))
		for t, v := range f {
			m[t] = v
		}
		c.Fields[k] = m
	}
	return c
}

// Shard is a last-write-wins model of the logical content of a shard (or of
// a database: the key space is the same).
type Shard struct {
	Series map[string]*Series
	// Types is the type each (measurement, field) holds.
	Types map[string]map[string]Kind
	// Tainted holds series keys that were the target of a partial delete
	// (some but not all of their points removed) since they were created or
	// last dropped outright. The engine un-lists a series only when a single
	// delete covers every index entry of its keys, and entries keep the time
	// span of tombstoned points until compaction, so for a tainted series
	// that is later emptied the listing oracles accept either answer
	// (DESIGN C10, narrow reading). MaybeListed holds the emptied ones.
	Tainted     map[string]bool
	MaybeListed map[string]bool
}

func NewShard() *Shard {
	return &Shard{Series: map[string]*Series{}, Types: map[string]map[string]Kind{}, Tainted: map[string]bool{}, MaybeListed: map[string]bool{}}
}

func (m *Shard) Clone() *Shard {
	c := NewShard()
	for k, s := range m.Series {
		c.Series[k] = s.clone()
	}
	for k, t := range m.Types {
		tt := make(map[string]Kind, len(t))
		for f, kd := range t {
			tt[f] = kd
		}
		c.Types[k] = tt
	}
	for k := range m.Tainted {
		c.Tainted[k] = true
	}
	for k := range m.MaybeListed {
		c.MaybeListed[k] = true
	}
	return c
}

// Conflicts reports whether p carries a field whose type differs from the type
// the measurement's field already has.
func (m *Shard) Conflicts(p Point) bool {
	t := m.Types[p.M]
	for _, f := range p.Fields {
		if k, ok := t[f.Name]; ok && k != f.V.K {
			return true
		}
	}
	return false
}

// Write applies a batch, point by point, last write wins. Points that
// conflict with an existing field type are rejected; the number rejected is
// returned.
func (m *Shard) Write(points []Point) (rejected int) {
	for _, p := range points {
		if m.Conflicts(p) {
			rejected++
			continue
		}
		key := SeriesKey(p.M, p.Tags)
		s := m.Series[key]
		if s == nil {
			ts := make([]Tag, 0, len(p.Tags))
			for _, t := range p.Tags {
				if t.V != "" {
					ts = append(ts, t)
				}
			}
			sort.Slice(ts, func(i, j int) bool { return ts[i].K < ts[j].K })
			s = &Series{M: p.M, Tags: ts, Fields: map[string]map[int64]Value{}}
			m.Series[key] = s
		}
		delete(m.MaybeListed, key)
		if m.Types[p.M] == nil {
			m.Types[p.M] = map[string]Kind{}
		}
		for _, f := range p.Fields {
			m.Types[p.M][f.Name] = f.V.K
			if s.Fields[f.Name] == nil {
				s.Fields[f.Name] = map[int64]Value{}
			}
			s.Fields[f.Name][p.T] = f.V
		}
	}
	return rejected
}

// DeleteRange removes the points of the given series with min <= t <= max.
// Series left without points are removed from the model; whether they were
// emptied by this single delete is recorded for the listing oracle.
func (m *Shard) DeleteRange(keys []string, min, max int64) {
	for _, k := range keys {
		s := m.Series[k]
		if s == nil {
			continue
		}
		removed := 0
		for _, f := range s.Fields {
			for t := range f {
				if t >= min && t <= max {
					delete(f, t)
					removed++
				}
			}
		}
		if s.Empty() {
			if m.Tainted[k] {
				m.MaybeListed[k] = true
			}
			delete(m.Series, k)
			m.gcTypes(s.M)
		} else if removed > 0 {
			m.Tainted[k] = true
		}
	}
}

// gcTypes forgets the field types of a measurement that has no series left.
func (m *Shard) gcTypes(meas string) {
	for _, s := range m.Series {
		if s.M == meas {
			return
		}
	}
	delete(m.Types, meas)
}

// DropSeries removes whole series.
func (m *Shard) DropSeries(keys []string) {
	for _, k := range keys {
		if s := m.Series[k]; s != nil {
			delete(m.Series, k)
			delete(m.Tainted, k)
			delete(m.MaybeListed, k)
			m.gcTypes(s.M)
		}
	}
}

// DropMeasurement removes every series of a measurement.
func (m *Shard) DropMeasurement(meas string) {
	for k, s := range m.Series {
		if s.M == meas {
			delete(m.Series, k)
		}
	}
	for _, set := range []map[string]bool{m.Tainted, m.MaybeListed} {
		for k := range set {
			if k == meas || strings.HasPrefix(k, meas+",") {
				delete(set, k)
			}
		}
	}
	delete(m.Types, meas)
}

// TV is a (time, value) pair.
type TV struct {
	T int64
	V Value
}

// Read returns the points of a series field with tmin <= t <= tmax.
func (m *Shard) Read(series, field string, tmin, tmax int64, ascending bool) []TV {
	s := m.Series[series]
	if s == nil {
		return nil
	}
	var out []TV
	for t, v := range s.Fields[field] {
		if t >= tmin && t <= tmax {
			out = append(out, TV{t, v})
		}
	}
	sort.Slice(out, func(i, j int) bool {
		if ascending {
			return out[i].T < out[j].T
		}
		return out[i].T > out[j].T
	})
	return out
}

// SeriesKeys returns the sorted keys of series that have at least one point.
func (m *Shard) SeriesKeys() []string {
	var ks []string
	for k, s := range m.Series {
		if !s.Empty() {
			ks = append(ks, k)
		}
	}
	sort.Strings(ks)
	return ks
}

// Measurements returns the sorted names of measurements with >=1 point.
func (m *Shard) Measurements() []string {
	set := map[string]bool{}
	for _, s := range m.Series {
		if !s.Empty() {
			set[s.M] = true
		}
	}
	var out []string
	for k := range set {
		out = append(out, k)
	}
	sort.Strings(out)
	return out
}

// FieldNames returns sorted field names ever typed for a measurement.
func (m *Shard) FieldNames(meas string) []string {
	var out []string
	for f := range m.Types[meas] {
		out = append(out, f)
	}
	sort.Strings(out)
	return out
}

// Digest is a short stable digest of the content (for reach signatures).
func (m *Shard) Digest() string {
	n, pts := 0, 0
	for _, s := range m.Series {
		n++
		for _, f := range s.Fields {
			pts += len(f)
		}
	}
	return fmt.Sprintf("s%d/p%d/m%d", n, pts, len(m.Types))
}
