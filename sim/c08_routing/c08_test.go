// C08 — every point is routed to exactly one, well-defined shard.
//
// 1-3 real coordinator.PointsWriters (nodes) call MapShards, each behind a
// meta client stub that holds a possibly lagging copy of one real meta.Data
// and forwards CreateShardGroup to the authoritative copy (real
// Data.CreateShardGroup, serialised - what raft gives), exactly as the real
// client does: cache first, then create, then read back. The plan interleaves
// a metadata history (alter shard duration, pre-create groups, truncate,
// delete groups, add/remove data nodes, clock advance) with batches whose
// timestamps sit at and around group boundaries.
package c08

import (
	"fmt"
	"sort"
	"strings"
	"testing"
	"time"

	"github.com/influxdata/influxdb/coordinator"
	"github.com/influxdata/influxdb/models"
	"github.com/influxdata/influxdb/services/meta"
	"pgregory.net/rapid"

	"verifsim/core"
)

type pt struct {
	M    string
	Tags [][2]string // in the order given (permuted)
	Ref  string      // "abs" | "now" | "start" | "end" | "trunc" of group pick
	Pick int
	Off  int64 // ns offset from the reference
}

type op struct {
	Kind   string // batch, alter, precreate, truncate, delgroup, addnode, delnode, sleep, sync
	Node   int
	Points []pt
	Dur    time.Duration
	Ref    string
	Pick   int
	Off    int64
}

type plan struct {
	Nodes    int
	DataN    int
	ReplicaN int
	RPDur    time.Duration
	SGDur    time.Duration
	Ops      []op
}

var durations = []time.Duration{time.Hour, 24 * time.Hour, 7 * 24 * time.Hour}

func genPt(t *rapid.T, label string) pt {
	p := pt{M: rapid.SampledFrom([]string{"cpu", "mem"}).Draw(t, label+".m")}
	ntag := rapid.IntRange(0, 3).Draw(t, label+".ntag")
	keys := []string{"host", "region", "az"}
	perm := rapid.Permutation(keys).Draw(t, label+".perm")
	for i := 0; i < ntag; i++ {
		p.Tags = append(p.Tags, [2]string{perm[i], rapid.SampledFrom([]string{"a", "b", "c", "d"}).Draw(t, label+".tv")})
	}
	p.Ref = rapid.SampledFrom([]string{"now", "now", "start", "end", "end", "trunc", "trunc", "abs"}).Draw(t, label+".ref")
	p.Pick = rapid.IntRange(0, 7).Draw(t, label+".pick")
	switch rapid.IntRange(0, 4).Draw(t, label+".ok") {
	case 0:
		p.Off = 0
	case 1:
		p.Off = -1
	case 2:
		p.Off = 1
	default:
		p.Off = rapid.Int64Range(-int64(36*time.Hour), int64(36*time.Hour)).Draw(t, label+".off")
	}
	if p.Ref == "abs" {
		p.Off = rapid.SampledFrom([]int64{models.MinNanoTime, models.MaxNanoTime, models.MaxNanoTime - 1, 0, 1}).Draw(t, label+".abs")
	}
	return p
}

func genPlan(t *rapid.T) interface{} {
	p := &plan{}
	p.Nodes = rapid.IntRange(1, 3).Draw(t, "nodes")
	p.DataN = rapid.IntRange(1, 5).Draw(t, "datanodes")
	p.ReplicaN = rapid.IntRange(1, 3).Draw(t, "replica")
	p.SGDur = rapid.SampledFrom(durations).Draw(t, "sgdur")
	p.RPDur = rapid.SampledFrom([]time.Duration{0, 0, 7 * 24 * time.Hour, 30 * 24 * time.Hour, 24 * time.Hour}).Draw(t, "rpdur")
	if p.RPDur != 0 && p.RPDur < p.SGDur {
		p.RPDur = p.SGDur
	}
	n := rapid.IntRange(1, 20).Draw(t, "nops")
	for i := 0; i < n; i++ {
		l := fmt.Sprintf("op%d", i)
		node := rapid.IntRange(0, p.Nodes-1).Draw(t, l+".node")
		switch k := rapid.IntRange(0, 19).Draw(t, l+".kind"); {
		case k < 9:
			o := op{Kind: "batch", Node: node}
			np := rapid.IntRange(1, 6).Draw(t, l+".np")
			for j := 0; j < np; j++ {
				o.Points = append(o.Points, genPt(t, fmt.Sprintf("%s.p%d", l, j)))
			}
			p.Ops = append(p.Ops, o)
		case k < 11:
			p.Ops = append(p.Ops, op{Kind: "alter", Dur: rapid.SampledFrom(durations).Draw(t, l+".dur")})
		case k < 13:
			ref := genPt(t, l+".at")
			p.Ops = append(p.Ops, op{Kind: "precreate", Ref: ref.Ref, Pick: ref.Pick, Off: ref.Off})
		case k < 15:
			ref := genPt(t, l+".at")
			p.Ops = append(p.Ops, op{Kind: "truncate", Ref: ref.Ref, Pick: ref.Pick, Off: ref.Off})
		case k < 16:
			p.Ops = append(p.Ops, op{Kind: "delgroup", Pick: rapid.IntRange(0, 7).Draw(t, l+".pick")})
		case k < 17:
			p.Ops = append(p.Ops, op{Kind: rapid.SampledFrom([]string{"addnode", "delnode"}).Draw(t, l+".nk")})
		case k < 18:
			p.Ops = append(p.Ops, op{Kind: "sleep", Dur: time.Duration(rapid.Int64Range(1, int64(48*time.Hour)).Draw(t, l+".d"))})
		default:
			p.Ops = append(p.Ops, op{Kind: "sync", Node: node})
		}
	}
	return p
}

// fnv64a is the harness' own implementation of the hash the router is
// specified to use.
func fnv64a(b []byte) uint64 {
	h := uint64(14695981039346656037)
	for _, c := range b {
		h ^= uint64(c)
		h *= 1099511628211
	}
	return h
}

func canonicalKey(m string, tags [][2]string) string {
	ts := append([][2]string(nil), tags...)
	sort.Slice(ts, func(i, j int) bool { return ts[i][0] < ts[j][0] })
	s := m
	for _, t := range ts {
		s += "," + t[0] + "=" + t[1]
	}
	return s
}

// metaStub mimics meta.Client for one node: a cached copy plus forwarding.
type metaStub struct {
	auth     **meta.Data // authoritative copy (shared)
	cache    *meta.Data
	versions []*meta.Data // every version this node held during the current MapShards call
	id       uint64
}

func (m *metaStub) NodeID() uint64 { return m.id }
func (m *metaStub) Database(name string) *meta.DatabaseInfo {
	return m.cache.Database(name)
}
func (m *metaStub) RetentionPolicy(database, policy string) (*meta.RetentionPolicyInfo, error) {
	return m.cache.RetentionPolicy(database, policy)
}
func (m *metaStub) CreateShardGroup(database, policy string, ts time.Time) (*meta.ShardGroupInfo, error) {
	if sg, _ := m.cache.ShardGroupByTimestamp(database, policy, ts); sg != nil {
		return sg, nil
	}
	// serialised apply on the authoritative copy: clone, mutate, install
	next := (*m.auth).Clone()
	next.Index++
	if err := next.CreateShardGroup(database, policy, ts); err != nil {
		return nil, err
	}
	*m.auth = next
	m.cache = next.Clone()
	m.versions = append(m.versions, m.cache)
	rpi, err := m.cache.RetentionPolicy(database, policy)
	if err != nil {
		return nil, err
	}
	return rpi.ShardGroupByTimestamp(ts), nil
}

func liveGroups(d *meta.Data) []meta.ShardGroupInfo {
	rpi, _ := d.RetentionPolicy("db", "rp")
	if rpi == nil {
		return nil
	}
	var out []meta.ShardGroupInfo
	for _, g := range rpi.ShardGroups {
		if !g.Deleted() {
			out = append(out, g)
		}
	}
	return out
}

func resolve(d *meta.Data, ref string, pick int, off int64) int64 {
	now := time.Now().UnixNano()
	gs := liveGroups(d)
	base := now
	switch ref {
	case "abs":
		return off
	case "start", "end", "trunc":
		if len(gs) > 0 {
			g := gs[pick%len(gs)]
			switch ref {
			case "start":
				base = g.StartTime.UnixNano()
			case "end":
				base = g.EndTime.UnixNano()
			case "trunc":
				if g.Truncated() {
					base = g.TruncatedAt.UnixNano()
				} else {
					base = g.StartTime.UnixNano() + (g.EndTime.UnixNano()-g.StartTime.UnixNano())/2
				}
			}
		}
	}
	t := base + off
	if off > 0 && t < base {
		t = models.MaxNanoTime
	}
	if off < 0 && t > base {
		t = models.MinNanoTime
	}
	if t < models.MinNanoTime {
		t = models.MinNanoTime
	}
	if t > models.MaxNanoTime {
		t = models.MaxNanoTime
	}
	return t
}

func exec(run *core.Run, pl interface{}) {
	p := pl.(*plan)
	auth := &meta.Data{}
	for i := 0; i < p.DataN; i++ {
		auth.Index++
		if err := auth.CreateDataNode(fmt.Sprintf("h%d:8086", i), fmt.Sprintf("h%d:8088", i)); err != nil {
			run.Fail("harness-error", "", "CreateDataNode: %v", err)
			return
		}
	}
	auth.CreateDatabase("db")
	if err := auth.CreateRetentionPolicy("db", &meta.RetentionPolicyInfo{Name: "rp", ReplicaN: p.ReplicaN, Duration: p.RPDur, ShardGroupDuration: p.SGDur}, true); err != nil {
		run.Fail("harness-error", "", "CreateRetentionPolicy: %v", err)
		return
	}
	nextNode := p.DataN
	var stubs []*metaStub
	var writers []*coordinator.PointsWriter
	for i := 0; i < p.Nodes; i++ {
		s := &metaStub{auth: &auth, cache: auth.Clone(), id: uint64(i + 1)}
		w := coordinator.NewPointsWriter()
		w.MetaClient = s
		stubs = append(stubs, s)
		writers = append(writers, w)
	}
	apply := func(f func(d *meta.Data) error) error {
		next := auth.Clone()
		next.Index++
		if err := f(next); err != nil {
			return err
		}
		auth = next
		return nil
	}
	designated := func(d *meta.Data, t int64) uint64 {
		rpi, _ := d.RetentionPolicy("db", "rp")
		if rpi == nil {
			return 0
		}
		ts := time.Unix(0, t)
		var found uint64
		n := 0
		for _, g := range rpi.ShardGroups {
			if g.Deleted() {
				continue
			}
			end := g.EndTime
			if g.Truncated() {
				end = g.TruncatedAt
			}
			if !ts.Before(g.StartTime) && ts.Before(end) {
				found = g.ID
				n++
			}
		}
		if n > 1 {
			return ^uint64(0)
		}
		return found
	}
	for i, o := range p.Ops {
		if run.Failed() {
			return
		}
		core.Progress()
		run.Op(o.Kind)
		switch o.Kind {
		case "sleep":
			time.Sleep(o.Dur)
			run.Logf("op%d sleep %v", i, o.Dur)
		case "sync":
			stubs[o.Node].cache = auth.Clone()
			run.Logf("op%d node%d cache synced", i, o.Node+1)
		case "alter":
			d := o.Dur
			err := apply(func(x *meta.Data) error {
				return x.UpdateRetentionPolicy("db", "rp", &meta.RetentionPolicyUpdate{ShardGroupDuration: &d}, false)
			})
			run.Logf("op%d alter shard duration %v: %v", i, d, err)
			if err == nil {
				run.Probe("shard-duration-altered")
			}
		case "precreate":
			t := resolve(auth, o.Ref, o.Pick, o.Off)
			err := apply(func(x *meta.Data) error { return x.CreateShardGroup("db", "rp", time.Unix(0, t)) })
			run.Logf("op%d precreate group at %d: %v", i, t, err)
		case "truncate":
			t := resolve(auth, o.Ref, o.Pick, o.Off)
			apply(func(x *meta.Data) error { x.TruncateShardGroups(time.Unix(0, t)); return nil })
			run.Logf("op%d truncate shard groups at %d", i, t)
			run.Probe("truncated")
		case "delgroup":
			gs := liveGroups(auth)
			if len(gs) == 0 {
				continue
			}
			id := gs[o.Pick%len(gs)].ID
			err := apply(func(x *meta.Data) error { return x.DeleteShardGroup("db", "rp", id) })
			run.Logf("op%d delete group %d: %v", i, id, err)
			run.Probe("group-deleted")
		case "addnode":
			nextNode++
			n := nextNode
			apply(func(x *meta.Data) error {
				return x.CreateDataNode(fmt.Sprintf("h%d:8086", n), fmt.Sprintf("h%d:8088", n))
			})
			run.Logf("op%d add data node", i)
		case "delnode":
			if len(auth.DataNodes) <= 1 {
				continue
			}
			id := auth.DataNodes[o.Pick%len(auth.DataNodes)].ID
			err := apply(func(x *meta.Data) error { return x.DeleteDataNode(id) })
			run.Logf("op%d delete data node %d: %v", i, id, err)
		case "batch":
			s := stubs[o.Node]
			w := writers[o.Node]
			var points []models.Point
			var times []int64
			for _, q := range o.Points {
				t := resolve(auth, q.Ref, q.Pick, q.Off)
				tm := map[string]string{}
				for _, kv := range q.Tags {
					tm[kv[0]] = kv[1]
				}
				// models.NewTags sorts; give the tags in the drawn order through the line protocol instead
				line := q.M
				for _, kv := range q.Tags {
					line += "," + kv[0] + "=" + kv[1]
				}
				line += fmt.Sprintf(" v=1i %d", t)
				ps, err := models.ParsePointsString(line)
				if err != nil || len(ps) != 1 {
					run.Fail("harness-error", "", "parse %q: %v", line, err)
					return
				}
				points = append(points, ps[0])
				times = append(times, t)
			}
			rp, _ := s.cache.RetentionPolicy("db", "rp")
			now := time.Now()
			s.versions = []*meta.Data{s.cache}
			mapping, err := w.MapShards(&coordinator.WritePointsRequest{Database: "db", RetentionPolicy: "rp", Points: points})
			if err != nil {
				run.Fail("mapshards-failed", "", "op%d node%d: MapShards: %v", i, o.Node+1, err)
				return
			}
			versions := s.versions
			var desc []string
			for j, q := range o.Points {
				desc = append(desc, fmt.Sprintf("%s@%d", canonicalKey(q.M, q.Tags), times[j]))
			}
			run.Logf("op%d node%d batch %s", i, o.Node+1, strings.Join(desc, " "))
			// conservation: every point in exactly one place
			count := map[string]int{}
			where := map[string]uint64{}
			for sid, ps := range mapping.Points {
				for _, mp := range ps {
					k := string(mp.Key()) + fmt.Sprint(mp.UnixNano())
					count[k]++
					where[k] = sid
				}
			}
			dropped := map[string]int{}
			for _, mp := range mapping.Dropped {
				dropped[string(mp.Key())+fmt.Sprint(mp.UnixNano())]++
			}
			want := map[string]int{}
			for j, q := range o.Points {
				want[canonicalKey(q.M, q.Tags)+fmt.Sprint(times[j])]++
			}
			for k, n := range want {
				if count[k]+dropped[k] != n {
					run.Fail("point-lost-or-duplicated", "", "op%d node%d: point %s given %d times: mapped %d times, dropped %d times", i, o.Node+1, k, n, count[k], dropped[k])
					return
				}
			}
			total := 0
			for _, n := range count {
				total += n
			}
			for _, n := range dropped {
				total += n
			}
			if total != len(points) {
				run.Fail("point-lost-or-duplicated", "", "op%d node%d: %d points in, %d out", i, o.Node+1, len(points), total)
				return
			}
			final := versions[len(versions)-1]
			for j, q := range o.Points {
				t := times[j]
				k := canonicalKey(q.M, q.Tags) + fmt.Sprint(t)
				old := rp.Duration != 0 && time.Unix(0, t).Before(now.Add(-rp.Duration))
				if old {
					run.Probe("point-older-than-retention")
					if dropped[k] == 0 {
						run.Fail("old-point-not-dropped", "", "op%d node%d: %s is older than the retention period (%v before now) but was mapped to shard %d", i, o.Node+1, k, rp.Duration, where[k])
						return
					}
					continue
				}
				if dropped[k] > 0 {
					run.Fail("point-dropped-within-retention", "", "op%d node%d: %s lies within the retention period (duration %v) but was reported dropped", i, o.Node+1, k, rp.Duration)
					return
				}
				sid := where[k]
				// which group holds that shard (in the final version)
				var grp *meta.ShardGroupInfo
				for _, g := range liveGroupsAll(final) {
					g := g
					for _, sh := range g.Shards {
						if sh.ID == sid {
							grp = &g
						}
					}
				}
				if grp == nil {
					run.Fail("mapped-to-unknown-shard", "", "op%d node%d: %s mapped to shard %d which no shard group of the metadata has", i, o.Node+1, k, sid)
					return
				}
				// acceptable groups: what any metadata version the node held during the call designates
				ok := false
				var acc []uint64
				for _, v := range versions {
					d := designated(v, t)
					acc = append(acc, d)
					if d == grp.ID {
						ok = true
					}
				}
				if !ok {
					why := ""
					if grp.Deleted() {
						why = " (a deleted group)"
					} else if grp.Truncated() && !time.Unix(0, t).Before(grp.TruncatedAt) {
						why = fmt.Sprintf(" (truncated at %d: the point is at or after the truncation time)", grp.TruncatedAt.UnixNano())
						run.Probe("point-at-or-after-truncation")
					}
					site := ""
					if strings.Contains(why, "truncated") {
						site = "truncated-group"
					}
					run.Fail("routed-to-wrong-group", site, "op%d node%d: %s mapped to shard %d of group %d [%d,%d)%s; the metadata designates group %v for that timestamp", i, o.Node+1, k, sid, grp.ID, grp.StartTime.UnixNano(), grp.EndTime.UnixNano(), why, acc)
					return
				}
				// shard within the group: hash of the canonical key alone
				h := fnv64a([]byte(canonicalKey(q.M, q.Tags)))
				exp := grp.Shards[0].ID
				if len(grp.Shards) > 1 {
					exp = grp.Shards[h%uint64(len(grp.Shards))].ID
				}
				if sid != exp {
					run.Fail("routed-to-wrong-shard", "", "op%d node%d: %s (tags given as %v) mapped to shard %d, hash of the canonical series key selects shard %d of group %d (%d shards)", i, o.Node+1, k, q.Tags, sid, exp, grp.ID, len(grp.Shards))
					return
				}
				if len(grp.Shards) > 1 {
					run.Probe("multi-shard-group")
				}
				if grp.Truncated() {
					run.Probe("point-in-truncated-group-before-cut")
				}
			}
			// Independence of the other points of the batch is implied by the two
			// checks above (group = what the metadata designates for the
			// timestamp, shard = hash of the series key alone). Re-mapping points
			// one by one is not compared: a lagging cache refreshed in the middle
			// of a call legitimately changes later designations.
			run.NonTrivial = true
		}
	}
	run.Digest = fmt.Sprintf("g%d", len(liveGroupsAll(auth)))
}

func liveGroupsAll(d *meta.Data) []meta.ShardGroupInfo {
	rpi, _ := d.RetentionPolicy("db", "rp")
	if rpi == nil {
		return nil
	}
	return rpi.ShardGroups
}

func describe(pl interface{}) interface{} {
	p := pl.(*plan)
	var ops []string
	for _, o := range p.Ops {
		switch o.Kind {
		case "batch":
			s := fmt.Sprintf("batch(node%d", o.Node+1)
			for _, q := range o.Points {
				s += fmt.Sprintf(" %s%v@%s[%d]%+d", q.M, q.Tags, q.Ref, q.Pick, q.Off)
			}
			ops = append(ops, s+")")
		case "alter", "sleep":
			ops = append(ops, fmt.Sprintf("%s(%v)", o.Kind, o.Dur))
		case "precreate", "truncate":
			ops = append(ops, fmt.Sprintf("%s(%s[%d]%+d)", o.Kind, o.Ref, o.Pick, o.Off))
		default:
			ops = append(ops, fmt.Sprintf("%s(%d)", o.Kind, o.Pick))
		}
	}
	return map[string]interface{}{"nodes": p.Nodes, "datanodes": p.DataN, "replica": p.ReplicaN, "rp_duration": p.RPDur.String(), "shard_duration": p.SGDur.String(), "ops": ops}
}

func TestC08(t *testing.T) {
	core.Main(t, core.Harness{
		Property:       "C08",
		Gen:            genPlan,
		Exec:           exec,
		Bubble:         true,
		Describe:       describe,
		Tier:           "A",
		RequiredProbes: []string{"truncated", "group-deleted", "multi-shard-group", "point-older-than-retention", "shard-duration-altered", "point-in-truncated-group-before-cut"},
		Real:           []string{"coordinator.PointsWriter.MapShards, sgList", "meta.Data (CreateShardGroup, ShardGroupByTimestamp, TruncateShardGroups, DeleteShardGroup, UpdateRetentionPolicy, Create/DeleteDataNode)", "ShardGroupInfo.ShardFor, models.HashID"},
		Stub:           []string{"meta client (cache-then-create logic re-stated over real meta.Data; raft replaced by a serialised apply)"},
		Assumptions:    []string{"a node may hold a lagging metadata copy: a group is accepted if any metadata version the node held during the call designates it for the timestamp"},
		Rule:           "a run = seeded metadata history (alter shard duration, pre-create, truncate, delete groups, add/remove nodes, clock advance, cache sync) interleaved with batches mapped by 1-3 real PointsWriters; timestamps at group start/end/truncation +-1ns, now-retention, extremes; oracle: conservation, dropped iff older than retention, group = the one the metadata designates (never deleted, never truncated at/after the cut), shard = fnv64a(canonical key) mod n, same alone as in the batch; non-trivial = at least one batch mapped",
	})
}
