// C13 — torn logs replay their prefix (and, through it, WAL entry encoding).
//
// A WAL segment is produced by the real WAL (WriteMulti / Delete /
// DeleteRange) from a seeded entry sequence; SimDisk cuts a copy of it at every
// byte offset (sampled when the segment is long), optionally zero-filling from
// an entry boundary; the real CacheLoader / WALSegmentReader replays the cut
// copy. Oracle: the cache holds exactly what the entries that end at or before
// the cut produce, nothing panics, the file is truncated to the last complete
// entry, and a second load yields the same cache.
package c13

import (
	"fmt"
	"os"
	"path/filepath"
	"sort"
	"strings"
	"testing"

	"github.com/influxdata/influxdb/tsdb/engine/tsm1"
	"go.uber.org/zap"
	"pgregory.net/rapid"

	"verifsim/core"
	"verifsim/model"
	"verifsim/storesim"
)

type entry struct {
	Kind   string // write, delete, deleterange
	Values map[string][]model.TV
	Keys   []string
	Min    int64
	Max    int64
}

type plan struct {
	Entries []entry
	Tape    []uint64
	// H: codec-through-storage mode - a store history made mostly of long
	// regular and irregular runs of every field type, written through the
	// WAL, snapshotted into blocks, re-encoded by compactions and read back
	// through the iterator decoders and the array (batch) decoders
	H *storesim.HPlan
}

// codecProfile: long runs (block codecs pick their schemes from the shape of
// the run), snapshots and compactions that decode and re-encode them, reads.
var codecProfile = storesim.Profile{
	Name: "C13", WWrite: 6, WBig: 30, WSnapshot: 18, WCompact: 14, WCompactFiles: 8, WStagger: 4,
	WDelete: 3, WReopen: 4, WRead: 6,
	CheckReads: true, MaxOps: 16, MaxShards: 1,
}

var keyUniverse = func() []string {
	var ks []string
	for _, s := range []string{"m0", "m0,a=x", "m1,a=y,b=q"} {
		for _, f := range storesim.Fields {
			ks = append(ks, s+"#!~#"+f.Name)
		}
	}
	return ks
}()

func kindOfKey(k string) model.Kind {
	for _, f := range storesim.Fields {
		if len(k) > len(f.Name)+4 && k[len(k)-len(f.Name)-4:] == "#!~#"+f.Name {
			return f.K
		}
	}
	panic("bad key " + k)
}

func genEntry(t *rapid.T, label string) entry {
	switch k := rapid.IntRange(0, 9).Draw(t, label+".kind"); {
	case k < 7:
		e := entry{Kind: "write", Values: map[string][]model.TV{}}
		nk := rapid.IntRange(1, 3).Draw(t, label+".nk")
		for i := 0; i < nk; i++ {
			key := keyUniverse[rapid.IntRange(0, len(keyUniverse)-1).Draw(t, label+".key")]
			nv := rapid.IntRange(1, 4).Draw(t, label+".nv")
			if rapid.IntRange(0, 15).Draw(t, label+".long") == 0 {
				nv = rapid.IntRange(5, 300).Draw(t, label+".nvl")
			}
			for j := 0; j < nv; j++ {
				e.Values[key] = append(e.Values[key], model.TV{T: storesim.GenTime(t, label+".t"), V: storesim.GenValue(t, kindOfKey(key), label+".v")})
			}
		}
		return e
	case k < 8:
		e := entry{Kind: "delete"}
		for i := rapid.IntRange(1, 3).Draw(t, label+".nk"); i > 0; i-- {
			e.Keys = append(e.Keys, keyUniverse[rapid.IntRange(0, len(keyUniverse)-1).Draw(t, label+".key")])
		}
		return e
	default:
		e := entry{Kind: "deleterange"}
		for i := rapid.IntRange(1, 3).Draw(t, label+".nk"); i > 0; i-- {
			e.Keys = append(e.Keys, keyUniverse[rapid.IntRange(0, len(keyUniverse)-1).Draw(t, label+".key")])
		}
		a, b := storesim.GenTime(t, label+".min"), storesim.GenTime(t, label+".max")
		if a > b {
			a, b = b, a
		}
		e.Min, e.Max = a, b
		return e
	}
}

func genPlan(t *rapid.T) interface{} {
	p := &plan{}
	if rapid.IntRange(0, 3).Draw(t, "codecmode") == 0 {
		p.H = storesim.GenHPlan(t, &codecProfile)
		return p
	}
	n := rapid.IntRange(1, 12).Draw(t, "n")
	for i := 0; i < n; i++ {
		p.Entries = append(p.Entries, genEntry(t, fmt.Sprintf("e%d", i)))
	}
	p.Tape = storesim.GenTape(t, 64, "tape")
	return p
}

// cacheModel is key -> time -> value, last write wins.
type cacheModel map[string]map[int64]model.Value

func (m cacheModel) apply(e entry) {
	switch e.Kind {
	case "write":
		for k, vs := range e.Values {
			if m[k] == nil {
				m[k] = map[int64]model.Value{}
			}
			for _, tv := range vs {
				m[k][tv.T] = tv.V
			}
		}
	case "delete":
		for _, k := range e.Keys {
			delete(m, k)
		}
	case "deleterange":
		for _, k := range e.Keys {
			for t := range m[k] {
				if t >= e.Min && t <= e.Max {
					delete(m[k], t)
				}
			}
			if len(m[k]) == 0 {
				delete(m, k)
			}
		}
	}
}

func toTSM(tv model.TV) tsm1.Value {
	switch tv.V.K {
	case model.Float:
		return tsm1.NewValue(tv.T, tv.V.F)
	case model.Integer:
		return tsm1.NewValue(tv.T, tv.V.I)
	case model.Unsigned:
		return tsm1.NewValue(tv.T, tv.V.U)
	case model.String:
		return tsm1.NewValue(tv.T, tv.V.S)
	default:
		return tsm1.NewValue(tv.T, tv.V.B)
	}
}

func fromTSM(v tsm1.Value) model.Value {
	switch x := v.Value().(type) {
	case float64:
		return model.Value{K: model.Float, F: x}
	case int64:
		return model.Value{K: model.Integer, I: x}
	case uint64:
		return model.Value{K: model.Unsigned, U: x}
	case string:
		return model.Value{K: model.String, S: x}
	case bool:
		return model.Value{K: model.Boolean, B: x}
	}
	return model.Value{}
}

// compareCache checks the loaded cache against the model.
func compareCache(c *tsm1.Cache, m cacheModel) string {
	got := map[string]bool{}
	for _, k := range c.Keys() {
		key := string(k)
		vals := c.Values(k)
		if len(vals) == 0 {
			continue
		}
		got[key] = true
		want := m[key]
		if len(vals) != len(want) {
			return fmt.Sprintf("key %q: cache has %d values, model %d", key, len(vals), len(want))
		}
		for i, v := range vals {
			if i > 0 && vals[i-1].UnixNano() >= v.UnixNano() {
				return fmt.Sprintf("key %q: values not strictly ordered at %d", key, i)
			}
			w, ok := want[v.UnixNano()]
			if !ok {
				return fmt.Sprintf("key %q: cache has t=%d which the complete entries never wrote", key, v.UnixNano())
			}
			if !w.Equal(fromTSM(v)) {
				return fmt.Sprintf("key %q t=%d: cache %s model %s", key, v.UnixNano(), fromTSM(v), w)
			}
		}
	}
	for k, vs := range m {
		if len(vs) > 0 && !got[k] {
			return fmt.Sprintf("key %q: model has %d values, cache none", k, len(vs))
		}
	}
	return ""
}

// canonEntry renders a WAL entry (map order removed).
func canonEntry(e tsm1.WALEntry) string {
	switch t := e.(type) {
	case *tsm1.WriteWALEntry:
		var keys []string
		for k := range t.Values {
			keys = append(keys, k)
		}
		sort.Strings(keys)
		var sb strings.Builder
		sb.WriteString("write")
		for _, k := range keys {
			fmt.Fprintf(&sb, " %q:", k)
			for _, v := range t.Values[k] {
				fmt.Fprintf(&sb, "[%d %v]", v.UnixNano(), v.Value())
			}
		}
		return sb.String()
	case *tsm1.DeleteWALEntry:
		return fmt.Sprintf("delete %q", t.Keys)
	case *tsm1.DeleteRangeWALEntry:
		return fmt.Sprintf("deleterange %q [%d,%d]", t.Keys, t.Min, t.Max)
	}
	return fmt.Sprintf("%T", e)
}

func loadInto(path string) (*tsm1.Cache, error) {
	c := tsm1.NewCache(0)
	l := tsm1.NewCacheLoader([]string{path})
	l.WithLogger(zap.NewNop())
	err := l.Load(c)
	return c, err
}

func exec(run *core.Run, pl interface{}) {
	p := pl.(*plan)
	if p.H != nil {
		h := &storesim.History{Run: run, Pr: &codecProfile, Plan: p.H, Root: filepath.Join(run.Scratch, "store")}
		h.Exec()
		run.Probe("codec-history-run")
		run.NonTrivial = true
		return
	}
	tape := &storesim.Tape{V: p.Tape}
	dir := filepath.Join(run.Scratch, "wal")
	w := tsm1.NewWAL(dir)
	if err := w.Open(); err != nil {
		run.Fail("harness-error", "", "WAL.Open: %v", err)
		return
	}
	var bounds []int64 // file size after each entry
	seg := filepath.Join(dir, "_00001.wal")
	for i, e := range p.Entries {
		var err error
		switch e.Kind {
		case "write":
			vals := map[string][]tsm1.Value{}
			for k, tvs := range e.Values {
				for _, tv := range tvs {
					vals[k] = append(vals[k], toTSM(tv))
				}
			}
			_, err = w.WriteMulti(vals)
		case "delete":
			var ks [][]byte
			for _, k := range e.Keys {
				ks = append(ks, []byte(k))
			}
			_, err = w.Delete(ks)
		case "deleterange":
			var ks [][]byte
			for _, k := range e.Keys {
				ks = append(ks, []byte(k))
			}
			_, err = w.DeleteRange(ks, e.Min, e.Max)
		}
		if err != nil {
			run.Fail("wal-append-failed", "", "entry %d (%s): %v", i, e.Kind, err)
			w.Close()
			return
		}
		st, err := os.Stat(seg)
		if err != nil {
			run.Fail("harness-error", "", "stat segment: %v", err)
			w.Close()
			return
		}
		bounds = append(bounds, st.Size())
		run.Op(e.Kind)
		run.Logf("entry %d %s -> segment size %d", i, e.Kind, st.Size())
	}
	w.Close()
	full, err := os.ReadFile(seg)
	if err != nil {
		run.Fail("harness-error", "", "read segment: %v", err)
		return
	}
	size := int64(len(full))
	// Every entry the segment reader yields must stay what it was when it was
	// read: the reader decodes into pooled buffers, and an entry that still
	// points into one changes under its holder as soon as the next entry (of
	// this or of another shard's segment) is read.
	{
		f, err := os.Open(seg)
		if err != nil {
			run.Fail("harness-error", "", "open segment: %v", err)
			return
		}
		rd := tsm1.NewWALSegmentReader(f)
		var held []tsm1.WALEntry
		var then []string
		for rd.Next() {
			e, err := rd.Read()
			if err != nil {
				break
			}
			held = append(held, e)
			then = append(then, canonEntry(e))
		}
		rd.Close()
		for i, e := range held {
			if now := canonEntry(e); now != then[i] {
				run.Fail("wal-entry-changed-after-later-reads", fmt.Sprintf("%T", e), "entry %d of the segment read back as %s and, once the following entries had been read, as %s: the entry shares memory with the reader's buffers", i, then[i], now)
				return
			}
		}
		if len(held) != len(p.Entries) {
			run.Fail("wal-entries-lost-without-a-cut", "", "the intact segment holds %d entries, its reader yields %d", len(p.Entries), len(held))
			return
		}
		run.ProbeN("entries-held-across-later-reads", len(held))
	}
	// offsets to cut at
	cuts := map[int64]bool{0: true, size: true}
	if size <= 1500 {
		for c := int64(0); c <= size; c++ {
			cuts[c] = true
		}
	} else {
		for _, b := range bounds {
			for d := int64(-6); d <= 6; d++ {
				if c := b + d; c >= 0 && c <= size {
					cuts[c] = true
				}
			}
		}
		for i := 0; i < 300; i++ {
			cuts[int64(tape.Choose(int(size)+1))] = true
		}
	}
	var order []int64
	for c := range cuts {
		order = append(order, c)
	}
	sort.Slice(order, func(i, j int) bool { return order[i] < order[j] })
	img := filepath.Join(run.Scratch, "cut.wal")
	for _, c := range order {
		core.Progress()
		// model = entries that end at or before the cut
		m := cacheModel{}
		last := int64(0)
		n := 0
		for i, b := range bounds {
			if b <= c {
				m.apply(p.Entries[i])
				last = b
				n++
			}
		}
		variants := []int64{0}
		if c == last && c < size && tape.Choose(3) == 0 {
			variants = append(variants, 1+int64(tape.Choose(int(size-c)))) // zero-fill from an entry boundary
		}
		for _, zero := range variants {
			data := append([]byte(nil), full[:c]...)
			data = append(data, make([]byte, zero)...)
			if err := os.WriteFile(img, data, 0o666); err != nil {
				run.Fail("harness-error", "", "write image: %v", err)
				return
			}
			if c < size {
				run.Fault("torn-tail")
			}
			if zero > 0 {
				run.Fault("zero-fill")
			}
			cache, err := loadInto(img)
			if err != nil {
				run.Fail("torn-log-load-error", "", "cut at %d of %d (+%d zero bytes), %d complete entries: Load: %v", c, size, zero, n, err)
				return
			}
			if d := compareCache(cache, m); d != "" {
				run.Fail("torn-log-replay-differs", "", "cut at %d of %d (+%d zero bytes), %d complete entries end at %d: %s", c, size, zero, n, last, d)
				return
			}
			st, _ := os.Stat(img)
			if st.Size() != last {
				run.Fail("torn-log-not-truncated-to-last-entry", "", "cut at %d of %d (+%d zero bytes): file is %d bytes after load, last complete entry ends at %d", c, size, zero, st.Size(), last)
				return
			}
			cache2, err := loadInto(img)
			if err != nil {
				run.Fail("torn-log-load-error", "", "second load after cut at %d: %v", c, err)
				return
			}
			if d := compareCache(cache2, m); d != "" {
				run.Fail("torn-log-second-replay-differs", "", "cut at %d of %d: second load: %s", c, size, d)
				return
			}
			if c != last {
				run.Probe("cut-inside-entry")
			} else {
				run.Probe("cut-at-boundary")
			}
		}
	}
	run.NonTrivial = len(order) > 2
	run.Digest = fmt.Sprintf("%d entries/%d bytes", len(p.Entries), size)
}

func describe(pl interface{}) interface{} {
	p := pl.(*plan)
	if p.H != nil {
		return storesim.DescribeHPlan(p.H)
	}
	var es []string
	for _, e := range p.Entries {
		switch e.Kind {
		case "write":
			s := "write{"
			var ks []string
			for k := range e.Values {
				ks = append(ks, k)
			}
			sort.Strings(ks)
			for _, k := range ks {
				s += fmt.Sprintf("%s:%d values", k, len(e.Values[k]))
				if len(e.Values[k]) <= 3 {
					s += fmt.Sprint(e.Values[k])
				}
				s += " "
			}
			if len(s) > 300 {
				s = s[:300] + "…"
			}
			es = append(es, s+"}")
		case "delete":
			es = append(es, fmt.Sprintf("delete%v", e.Keys))
		default:
			es = append(es, fmt.Sprintf("deleterange%v[%d,%d]", e.Keys, e.Min, e.Max))
		}
	}
	return map[string]interface{}{"entries": es}
}

func TestC13(t *testing.T) {
	core.Main(t, core.Harness{
		Property:       "C13",
		Gen:            genPlan,
		Exec:           exec,
		Bubble:         true,
		Warmup:         storesim.Warmup,
		Describe:       describe,
		Tier:           "A",
		RequiredProbes: []string{"cut-inside-entry", "cut-at-boundary", "codec-history-run"},
		Real:           []string{"tsm1.WAL (WriteMulti/Delete/DeleteRange, segment writer)", "tsm1.CacheLoader", "tsm1.WALSegmentReader", "WAL entry codecs", "tsm1.Cache", "codec mode: the whole tsm1 engine incl. block encoders, iterator decoders and array (batch) decoders"},
		Stub:           []string{"none"},
		Assumptions: []string{
			"a torn tail is a truncation of the segment (optionally followed by zero bytes from an entry boundary); bit flips inside entries are not modelled (the log has no checksum)",
			"the codec clause (block encodings) is a pure function of its input and is not searched as such; it is exercised through storage workloads: one run in four here (long runs of every type with regular steps from nanoseconds to 10^13 ns, constant / linear / alternating / pseudo-random values, through WAL, snapshot, compaction and both read paths) and the workloads of C02/C09",
		},
		Rule: "a run = seeded sequence of WAL write/delete/delete-range entries appended through the real WAL, the segment then cut at every byte offset (<=1500 bytes) or at every entry boundary +-6 and 300 seeded offsets, each cut replayed twice by the real CacheLoader; non-trivial = more than two cuts replayed; distinct = distinct (entry kinds, fault kinds, probes, segment size)",
	})
}
