#!/bin/bash
# usage: wave_confirm.sh <worktree> <demo pkg> <pkgs to test...>
# Writes _seeded/patch.diff, copies the demo into _seeded/, runs confirm_mutant.sh in the background.
wt="$1"; dpkg="$2"; shift 2
cd "$wt" || exit 2
git diff > _seeded/patch.diff
for f in $(git status --short | awk '/^\?\?/ {print $2}' | grep 'zz_seeded.*_test.go'); do cp "$f" _seeded/; done
nohup bash /verif/tools/confirm_mutant.sh "$wt" TestSeededDemo "$dpkg" "$@" > "$wt/_seeded/confirm_run.log" 2>&1 &
echo "confirming $wt"
