#!/usr/bin/env python3
"""save_mutant.py <worktree> <seeded-id> <property> <detected-by> <check-result-line>
Copies a confirmed seeded change from its scratch worktree into /verif/seeded/<id>/."""
import json, os, shutil, sys, glob
wt, sid, prop, detected, result = sys.argv[1:6]
src = os.path.join(wt, "_seeded")
dst = os.path.join("/verif/seeded", sid)
os.makedirs(dst, exist_ok=True)
shutil.copy(os.path.join(src, "patch.diff"), dst)
for f in glob.glob(os.path.join(src, "*_test.go")) + glob.glob(os.path.join(src, "*.go")):
    # keep the demo out of `go build ./...` of anything: store with a .txt suffix
    shutil.copy(f, os.path.join(dst, os.path.basename(f) + ".txt"))
meta = {}
try:
    meta = json.load(open(os.path.join(src, "meta.json")))
except Exception as e:
    meta = {"note": "agent meta.json unreadable: %s" % e}
conf = ""
if os.path.exists(os.path.join(src, "confirm.txt")):
    conf = "".join(l for l in open(os.path.join(src, "confirm.txt")) if l.startswith(("##", "rc=", "build rc=")))
meta.update({
    "property": prop,
    "seeded_id": sid,
    "confirmed_by_me": "tools/confirm_mutant.sh in the scratch worktree: demo fails with the change, passes without it; go build ./... and the touched packages' existing tests pass with the change:\n" + conf,
    "detected_by": detected,
    "check_result": result,
    "applies_with": "git -C /repo apply /verif/seeded/%s/patch.diff  (undo: git -C /repo checkout -- .)" % sid,
})
json.dump(meta, open(os.path.join(dst, "meta.json"), "w"), indent=1)
print("saved", dst)
