#!/usr/bin/env python3
"""save_wave.py <worktree> <seeded-id> <property> <detected-by> <check-result> <summary> <needs>
Copies a confirmed seeded change (wave 9 layout: _seeded/patch.diff, notes.md,
confirm.txt, demo zz_seeded*_test.go in the package dir) into /verif/seeded/<id>/."""
import json, os, shutil, sys, glob, subprocess
wt, sid, prop, detected, result, summary, needs = sys.argv[1:8]
src = os.path.join(wt, "_seeded")
dst = os.path.join("/verif/seeded", sid)
os.makedirs(dst, exist_ok=True)
shutil.copy(os.path.join(src, "patch.diff"), dst)
if os.path.exists(os.path.join(src, "notes.md")):
    shutil.copy(os.path.join(src, "notes.md"), os.path.join(dst, "agent_notes.md"))
demos = subprocess.run(["git", "-C", wt, "ls-files", "--others", "--exclude-standard"], capture_output=True, text=True).stdout.split()
demo_files = []
for f in demos:
    if os.path.basename(f).startswith("zz_seeded") and f.endswith("_test.go") and not f.startswith("_seeded/"):
        shutil.copy(os.path.join(wt, f), os.path.join(dst, os.path.basename(f) + ".txt"))
        demo_files.append(f)
conf = ""
if os.path.exists(os.path.join(src, "confirm.txt")):
    conf = "".join(l for l in open(os.path.join(src, "confirm.txt")) if l.startswith(("##", "rc=", "build rc=")))
meta = {
    "property": prop, "seeded_id": sid, "summary": summary, "needs": needs,
    "demo": "go test -run TestSeededDemo in the package of " + ", ".join(demo_files) + " (kept here with a .txt suffix)",
    "confirmed_by_me": "tools/confirm_mutant.sh in the scratch worktree (demo with the change, demo without it, go build ./..., the touched packages' existing tests with the change):\n" + conf,
    "detected_by": detected, "check_result": result,
    "applies_with": "git -C /repo apply /verif/seeded/%s/patch.diff  (undo: git -C /repo checkout -- .)" % sid,
}
json.dump(meta, open(os.path.join(dst, "meta.json"), "w"), indent=1)
print("saved", dst)
