#!/bin/bash
# usage: confirm_mutant.sh <worktree> <demo-run-regex> <demo pkg> <pkgs to test...>
# Confirms in the scratch worktree: demo fails with the change, passes without; packages' existing tests pass with the change.
export GOFLAGS=-mod=mod GOPROXY=off GOSUMDB=off
wt="$1"; rx="$2"; dpkg="$3"; shift 3
cd "$wt" || exit 2
out="$wt/_seeded/confirm.txt"; : > "$out"
echo "## demo WITH change (expect FAIL)" >> "$out"
go test -count=1 -timeout 20m -run "$rx" "$dpkg" >> "$out" 2>&1; echo "rc=$?" >> "$out"
git diff > /tmp/confirm.$$.diff
git apply -R /tmp/confirm.$$.diff
echo "## demo WITHOUT change (expect PASS)" >> "$out"
go test -count=1 -timeout 20m -run "$rx" "$dpkg" >> "$out" 2>&1; echo "rc=$?" >> "$out"
git apply /tmp/confirm.$$.diff; rm -f /tmp/confirm.$$.diff
echo "## existing tests WITH change (expect PASS)" >> "$out"
go build ./... >> "$out" 2>&1; echo "build rc=$?" >> "$out"
go test -count=1 -timeout 30m -skip "$rx" "$@" 2>&1 | tail -40 >> "$out"; echo "rc=${PIPESTATUS[0]}" >> "$out"
grep -n "^rc=\|^build rc=\|^## " "$out"
