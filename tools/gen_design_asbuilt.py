#!/usr/bin/env python3
"""Regenerates section 7 (as built) of DESIGN.md: hand-written head and tail
(tools/asbuilt_head.md, tools/asbuilt_tail.md) around tables generated from
known_findings.json, seeded/*/meta.json, evidence/*.json."""
import json, os, re
V = "/verif"
s = open(V + "/DESIGN.md").read()
i = s.find("\n## 7. As built")
if i >= 0:
    s = s[:i]
k = json.load(open(V + "/known_findings.json"))
fixed = [e for e in k if e["status"] == "fixed"]
known = [e for e in k if e["status"] == "known"]
out = [open(V + "/tools/asbuilt_head.md").read()]
out.append("### 7.4 Genuine defects repaired (one `fix:` commit each, recorded in known_findings.json)\n\n")
out.append("%d defects were found by the checks, shown against the real code, and repaired; the pinned test suite passes with all of them (section 7.8). Each line: property, commit, what failed.\n\n" % len(fixed))
for e in fixed:
    w = e["what_fails"]
    m = re.match(r"fixed: property=\S+ \S+ ", w)
    if m:
        w = w[m.end():]
    out.append("* **%s** `%s` — %s\n" % (e["property"], e.get("commit", ""), w.strip()))
out.append("\n### 7.5 Genuine defects recorded, not repaired (known findings)\n\n")
out.append("These are violations of the property as stated, shown against the real code, whose repair is not a small safe patch (format or protocol change, a redesign, or a dependency). The check prints `KNOWN-FINDING:` for them and exits 0; any other violation of the same property is still reported, because a finding is matched by the specific class and site it was recorded with.\n\n")
seen = set()
for e in known:
    key = e["what_fails"][:80]
    if key in seen:
        continue
    seen.add(key)
    props = sorted({x["property"] for x in known if x["what_fails"][:80] == key})
    sigs = sorted({x["signature"] for x in known if x["what_fails"][:80] == key})
    out.append("* **%s** (%s) — %s\n" % ("/".join(props), ", ".join("`%s`" % x for x in sigs[:4]) + (" …" if len(sigs) > 4 else ""), e["what_fails"]))
out.append("\n### 7.6 Seeded changes (sensitivity)\n\n")
out.append("Fresh sub-agents, given only one property's text and a scratch worktree of /repo, each produced a change that breaks the property while compiling and passing the existing tests; each was confirmed in its worktree (demonstration fails with / passes without the change; `go build ./...` and the touched packages' tests pass with it) and is kept under `seeded/<id>/` (patch, demonstration, meta.json with what it needs and what was run). `tools/try_mutant.sh` applies one to /repo, runs the check, restores /repo. Patches of the first waves were made on earlier trees; a patch that no longer applies after a later fix is kept with its rebased form.\n\n| seeded change | caught by | first attempt |\n|---|---|---|\n")
for name in sorted(os.listdir(V + "/seeded")):
    try:
        m = json.load(open(V + "/seeded/%s/meta.json" % name))
    except Exception:
        continue
    res = m.get("check_result", "")
    missed = "not caught" if "NOT CAUGHT" in res else "missed at first, check strengthened" if "MISSED" in res else ("caught (check had just been extended)" if "would have missed" in res else "caught")
    out.append("| %s | %s | %s |\n" % (name, m.get("detected_by", "").replace("|", "/"), missed))
out.append(open(V + "/tools/asbuilt_tail.md").read())
open(V + "/DESIGN.md", "w").write(s + "".join(out))
print("section 7:", sum(len(x) for x in out), "chars")
