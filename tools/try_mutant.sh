#!/bin/bash
# usage: tools/try_mutant.sh <patch.diff> <PROP> [check args...]
# Applies a seeded change to /repo, runs the check, always restores /repo.
set -u
patch="$1"; prop="$2"; shift 2
cd /repo || exit 2
if ! git diff --quiet; then echo "repo not clean"; exit 2; fi
if ! git apply "$patch" 2>/dev/null; then
  if ! patch -p1 --no-backup-if-mismatch < "$patch" >/dev/null; then echo "patch does not apply"; git checkout -- .; exit 2; fi
fi
cd /verif
./check "$prop" --no-evidence "$@"
rc=$?
git -C /repo checkout -- . ; git -C /repo clean -fdq -e '!*' >/dev/null 2>&1
find /repo -name '*.orig' -o -name '*.rej' | xargs -r rm -f
echo "mutant rc=$rc"
exit $rc
