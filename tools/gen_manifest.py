#!/usr/bin/env python3
"""Generates /verif/MANIFEST.json from the table below and checks.json."""
import json, os

VERIF = os.path.dirname(os.path.dirname(os.path.abspath(__file__)))
props = [json.loads(l) for l in open(os.path.join(VERIF, "properties.jsonl"))]
checks = json.load(open(os.path.join(VERIF, "checks.json")))

SIM = "deterministic simulation with fault injection"
claimed = {
 "C01": dict(
  text="Seeded search over histories x crash points x torn WAL tails on a real tsdb.Store: crash images are cut at hook events of every durable step, reopened by a fresh store and compared with the model of acknowledged writes, to depth 3 crash/restart cycles including crashes during recovery. Histories include cache snapshots that fail at the new file's fsync (1-3 attempts with further acknowledged writes in between, then possibly the attempt that succeeds) and deletes / drops issued while a failed snapshot is still held by the cache. Sampling, not proof.",
  note="durability is the SimDisk loss model: fsync/SyncDir trusted, directory operations durable in program order, unsynced WAL tail cut at any byte (zero-fill only from an entry boundary); index and series files copied as written",
  technique=SIM + ": rapid-seeded op/fault plans, crash images at verifhook durable-step events, last-write-wins reference model, shrinking to a minimal replay file",
  ref="3 C01, 2.5"),
 "C02": dict(
  text="Seeded histories of writes (5 types, duplicates, extreme times), type-conflicting and identical re-writes, snapshots with an operation parked inside the snapshot window, level/full/optimize/arbitrary compactions, deletes and reopen on a real store; after every step both read paths over full and drawn ranges/directions must equal the LWW model exactly.",
  note="background tickers off: the driver issues every snapshot/compaction through the engine's own entry points; type conflicts injected only against fields that currently hold data; a delete issued inside the snapshot window is a listed known finding",
  technique=SIM + ": operation-level seeded schedule incl. a window-level yield inside writeSnapshotAndCommit, LWW model comparison after every step",
  ref="3 C02"),
 "C03": dict(
  text="One batch written by the real PointsWriter to a shard with 1-5 owners on the fake clock; coordinator position, consistency level, per-owner outcome and answer time (before/after the timeout), busy handoff queue, handoff accept/refuse are drawn; success iff the level was met within the timeout, partial/failed classification, exactly-once handoff offers; in half of the runs hinted handoff is the real hh.Service whose queues must deliver after the owners heal. Cluster mode (one run in eight): the whole write path with real components - 2-4 real data nodes (store, coordinator.Service behind tcp.Mux, ShardWriter with pools, PointsWriter, the real hinted-handoff service) on the simulated network and clock; the coordinator writes batches at drawn levels - one in six with a field-type conflict every owner rejects for good - while other nodes are down, refuse, stall, reset, answer slowly, answer only after the writer's timeout (connection left open) or fail their local write, and pooled connections are reset when a node's fault changes; at the acknowledgement the points must be on as many owners as the level demands (any: stored or queued), after the heal everything handoff accepted must reach every reachable owner, no owner may hold unwritten data, and no client may take a reply sent before its current request arrived for the answer to it (simnet stale-reply oracle).",
  note="owners' stores and the meta client are stubs; answer times are distinct and never equal to the timeout so every race is decided by the plan; in cluster mode a node taken down stays down and the metadata is generated, not served by meta nodes",
  technique=SIM + ": testing/synctest fake clock, scripted owner outcomes/delays as the fault space, plan-derived oracle",
  ref="3 C03"),
 "C04": dict(
  text="The real hinted-handoff queue driven by seeded appends/deliveries/Empty checks/segment-size changes/purges/reopens with crash images crafted at its write events (any prefix of the in-flight write persisted), every image reopened, drained and driven further (depth 3); with deliveries that follow NodeProcessor.SendWrite's protocol (0-3 appends between the empty read and TrimExhausted); plus the real NodeProcessor on the fake clock with the default or a small segment size (several segments) against a scripted target (ok / retryable / lost ack / permanent rejection), node removal and 1-3 writes landing in the window between the processor's empty read and its skip of the exhausted segment, with bounded liveness after faults stop.",
  note="a queue write may persist as any prefix until the following Sync returns (8-byte footer rewrites taken as atomic); file times stamped from the simulated clock; the torn-append format weakness is a listed known finding; the buffered (>=10 concurrent writers) path is driven by holding the write limiter's tokens",
  technique=SIM + ": crash images from pre/post file content at verifhook write events, FIFO queue reference model, fake-clock processor runs",
  ref="3 C04"),
 "C06": dict(
  text="Logs of 1-60 metadata commands of all kinds (hand-encoded protobufs with arbitrary, repeated, conflicting and invalid arguments) applied on 8 replicas of the real storeFSM: 4 live with seeded fake-time gaps, 4 later on another clock with seeded Snapshot->Persist->Restore cycles; after every command canonical forms and Apply results must agree on all replicas and the invariants (disjoint live groups, unique never-reused ids, owner count and spread, no non-existent owners, rejected => unchanged) must hold.",
  note="raft is replaced by handing the same log to every replica (consensus is C07's subject); legacy CreateNode/RemovePeer/SetData commands are not generated; ties broken by Go map order show as divergence only with probability >= 7/8 per tie (map order is not seedable)",
  technique=SIM + ": replicated state machine replicas on skewed fake clocks with snapshot/restore restarts, canonical-form comparison, invariant checker",
  ref="3 C06"),
 "C07": dict(
  text="Three modes. snapshot: a generated command log with 1-4 snapshots taken at seeded positions and persisted 0-12 commands later (the interleaving raft produces); the restored image must equal the state at the snapshot position in full and a node restarted from it converges after replaying the suffix. accept: request bodies of every command type with absent/foreign/empty/garbage/truncated payloads - whatever the execute endpoint's validation accepts must apply on the state machine without panic. cluster: three real meta nodes (meta.Service with its HTTP handler, store, hashicorp/raft with bolt stores and file snapshots, the raft layer behind tcp.Mux) joined through the real /join endpoint on the simulated network and clock; a real meta.Client executes create/drop database, create retention policy, create user while nodes - any, or the current leader - are stopped, restarted, made to refuse incoming connections, cut off from their raft peers in both directions (HTTP still reachable) and healed; a command that does not return while a fault lasts is left running and must return after the heal; after the last fault and 45 simulated seconds every acknowledged change must be present on every node (an acknowledged drop stays dropped), all nodes hold identical metadata, and a new command commits.",
  note="cluster mode is one run in six; stops are clean closes (bolt's crash consistency is not explored); raft's snapshot threshold is not reached in cluster runs (the snapshot mode covers persist/restore of the state machine); no data nodes take part",
  technique=SIM + ": state-machine replay with seeded snapshot/persist interleavings; in-process raft cluster of real meta services on a simulated network and clock with node stop/restart/isolation faults; acknowledged-changes model and replica equality",
  ref="3 C07; 7.2"),
 "C08": dict(
  text="1-3 real PointsWriters map batches behind lagging copies of one real meta.Data while a seeded metadata history runs (alter shard duration, pre-create, truncate, delete groups, add/remove nodes, clock advance); timestamps at group start/end/truncation +-1ns, now-retention, extremes; conservation, dropped iff older than retention, group = what the metadata designates, shard = fnv64a(canonical key) mod n.",
  note="meta client is a stub restating the real client's cache-then-create logic over real meta.Data (raft replaced by a serialised apply); a group is accepted if any metadata version the node held during the call designates it",
  technique=SIM + ": seeded metadata/batch histories on the fake clock, independent router model",
  ref="3 C08"),
 "C09": dict(
  text="Seeded file-set histories (overlapping generations, tombstones, multi-block keys, five types) under snapshots and level/full/optimize/arbitrary-group compactions, a share of them with an injected fault (observer error at install, fsync error on the tmp file, abort part-way); logical content through both read paths must equal the model after every step, live TSM files must keep sorted keys and sorted non-overlapping index entries, no tmp file survives a restart.",
  note="points per block are not held to Compactor.Size; the 65535-block limit is not reached by the generated sizes",
  technique=SIM + ": fault injection at FileStoreObserver / verifhook Fault and Yield sites, LWW model comparison, TSM index invariant checker",
  ref="3 C09"),
 "C10": dict(
  text="Seeded histories of writes, range deletes by tag predicate/measurement (inclusive, single-instant, open-ended), series and measurement drops on 1-2 shards, interleaved with snapshots (deletes parked inside the snapshot window), compactions and restarts; reads of every model series and the store listings are compared with the model after every later step. Crash points inside deletes are explored by C01's harness (deletes are part of its histories).",
  note="narrow reading of un-listing (DESIGN C10); delete-during-in-flight-snapshot and tsi1 lingering tag values are listed known findings",
  technique=SIM + ": operation-level seeded schedule with window-level yields, LWW+listing reference model",
  ref="3 C10"),
 "C11": dict(
  text="One run draws a data set (1-28 points of two measurements, tags a,b, float/integer/string/boolean fields, timestamps clustered around hour boundaries, later overwrites), one statement of the covered grammar (raw field or count/sum/mean/min/max/first/last/spread/median; optional time bounds and tag predicate; GROUP BY time(interval[,offset]) and tags; fill none/null/number/previous/linear; ORDER BY time DESC; LIMIT/OFFSET/SLIMIT/SOFFSET) and two write/storage histories. The statement is evaluated (R) by a reference evaluator written for this check over the logical points, (0) on one node with one shard and everything in the cache, (A) on one node with a drawn shard-group duration (1/2/4 h), drawn write batches and cache snapshots / full compactions of drawn shard subsets between them, inmem or tsi1, (B) on a cluster of 2-3 real nodes (drawn replication and coordinator, remote iterators over the simulated network) with another drawn history. (0), (A), (B) must be string-equal; (0) must equal (R).",
  note="float values are multiples of 1/8 so sums are exact in any order; within a measurement a timestamp belongs to one series (ties between series are unspecified); numeric and linear fills only on numeric columns; linear-fill values are compared with 1e-9 relative tolerance against the reference (exactly between layouts); fill(previous/linear) under ORDER BY time DESC is taken to look at the rows already emitted, as the engine does; subqueries, regex sources, multiple fields per statement, GROUP BY * and functions outside the listed nine are not generated; SLIMIT/SOFFSET per shard is a listed known finding and such statements are not held against the reference",
  technique=SIM + ": seeded data/statement/layout generation, reference evaluator, three physical layouts incl. an in-process cluster on the simulated network",
  ref="3 C11"),
 "C13": dict(
  text="Torn-log clause: a WAL segment written by the real WAL from seeded entries is cut at every byte offset (sampled when long), optionally zero-filled from an entry boundary, and replayed twice by the real CacheLoader; the cache must equal the model of the complete entries, the file must be truncated to the last complete entry. The block-codec clause is exercised only through the storage workloads of C02/C09 (a pure function; not searched here).",
  note="bit flips inside entries are not modelled (the log has no checksum)",
  technique=SIM + ": simulated torn writes (every truncation offset) of a real WAL segment, replay against an entry-prefix model",
  ref="3 C13"),
 "C14": dict(
  text="Seeded histories of series creation, deletion, drop and re-creation, measurement drops, tsi1 log/level compactions (tiny log files, explicit Compact+Wait), data snapshots/compactions and reopen on inmem or tsi1 with 1-2 shards; MeasurementNames, TagKeys, TagValues, SeriesCardinality (tsi1) and MeasurementSeriesByExprIterator under =, !=, =~, !~, AND, OR must equal the model's series set after every step.",
  note="inmem SeriesCardinality is sketch-based and not held to the model; observations at Wait()-quiescent points; tsi1 lingering tag keys/values after series drops are listed known findings",
  technique=SIM + ": operation-level seeded schedule incl. index compactions, series-set reference model",
  ref="3 C14"),
 "C16": dict(
  text="Inside a simulated-clock bubble: the real httpd.Handler with authentication enabled, the real meta.QueryAuthorizer/WriteAuthorizer and a real meta.Client that follows the metadata through its real polling loop over the simulated network (stub meta server with long polling and plan-decided latency). A run is a history of 2-24 operations: user creation/removal, password change, grant/revoke per database, admin flag - each awaited until it reached the node or left in flight -, a password change placed by a yield point between the verification of a password and its entry into the credential cache, queries (1-3 statements out of 32 kinds, explicit and default database) and writes, with credentials as basic auth, query parameters, bearer token (valid, expired on the simulated clock, wrong secret) or none. Statements that pass are recorded by an executor behind the real query.Executor. Oracle: reference model of users/passwords/grants plus the harness' own table of what each statement kind needs; nothing may execute without authority (incl. before the first user exists - only the creation of the first administrator -, after the last administrator was dropped or demoted while other users remain - nothing anonymous -, and through the credential cache once a change has reached the node), and what the model authorises must execute.",
  note="requests issued while a change affecting them is still in flight are not judged (counted as a probe); required privileges follow the documented model; DROP SERIES, DELETE and DROP RETENTION POLICY are only held to the lower bound WRITE (documentation and query language disagree); the meta server is a stub (no raft), statement execution is a recorder, so checks inside coordinator.StatementExecutor are not exercised; Flux, Prometheus and debug endpoints are not driven",
  technique=SIM + ": seeded user/grant/credential histories against the real HTTP handler, authorizers and polling meta client on a simulated network and clock; window scheduling at a yield point; reference model",
  ref="3 C16"),
 "C17": dict(
  text="1-3 real retention services tick every 30 fake minutes over one real meta.Data with shard groups placed around the expiry boundary (+-1ns), duration changes (incl. infinite), operator deletes, truncation, clock advances, orphan local shards and injected metadata/DeleteShard errors; safety oracle at every DeleteShardGroup/DeleteShard call, bounded liveness (2 passes to mark, 3 to drop) after faults stop. Store mode (1 run in 6): the service runs against one real tsdb.Store (inmem / tsi1) holding 2-4 shards of consecutive one-hour groups with drawn writes of shared series, snapshots, compactions, restarts, hours passing, operator deletes and injected errors; every shard that is neither deleted nor expired must stay in the store, read exactly its acknowledged writes through both read paths and stay listed by the index (removing a shard takes series ids out of the database-wide series file), and three passes after the last fault every shard of a deleted or expired group is gone from the store and from disk, also after a restart.",
  note="in the metadata mode TSDBStore is a stub; the meta client is a serialised apply over real meta.Data; store mode has one node; index entries that linger for a removed shard's series are not judged; the write-time cut-off is checked by C08",
  technique=SIM + ": testing/synctest fake clock driving the real service loop, expiry predicate restated in the harness, injected errors",
  ref="3 C17"),
 "C05": dict(
  text="A cluster of 2-4 real data nodes (real tsdb.Store, coordinator.Service behind the real tcp.Mux, MetaExecutor, ClusterShardMapper, query.Executor, meta.Client over a generated meta.Data) on the simulated network; replication 1-n, 1-3 shard groups, 0-4 owner copies/removals, 1-40 points placed on every owner; a drawn coordinator executes 1-5 statements (raw/aggregate/grouped/time-bounded SELECT, wildcard SELECTs whose fields and tags are looked up on the owners, SHOW metadata lookups, EXPLAIN) while every other node has one fault kind: down, refuses, slow+fragmented, answers only after the asker's timeout (connection left open), stalls, resets at request time, resets or closes cleanly mid-stream, answers with an error, is up with disabled shards. Oracle: the same statement on a single-node reference holding the union of the data; success must equal it, a failure is only allowed when a shard has no healthy reachable owner or a fault hit mid-stream; a statement must return within 2 simulated minutes; no client may take a reply sent before its current request arrived for the answer to it (simnet stale-reply oracle).",
  note="meta.Data is generated and installed in every node's meta client (no raft traffic); hinted handoff is stubbed off; storage reads (ReadFilter/ReadGroup of the storage service) are not driven; equal-timestamp rows of different series are compared as a multiset; six shapes of silently incomplete success are listed known findings (clean close mid-stream, faulty owner answering type/metadata lookups as empty, metadata lookups ignoring node errors, unknown field type when the sole owner is unreachable); residual nondeterminism of the Go runtime (map iteration, select) means a replay is attempted up to 12 times",
  technique=SIM + ": in-process cluster on a simulated network with per-connection fault policies, reference-cluster comparison, fake clock for timeouts",
  ref="3 C05"),
 "C15": dict(
  text="Two real data nodes on the simulated network. Real client calls (ShardWriter, MetaExecutor incl. storage reads, coordinator.Client) from node 1 to node 2 are recorded byte for byte: the corpus of well-formed request streams (17 request kinds). A hostile peer sends 1-5 streams per run: corpus entries with 0-3 mutations (bit flip, type byte, first length prefix from a table of negative / huge / off-by-one / legal-but-huge values, truncation, garbage tail, random payload, repeated frame), valid write envelopes around valid / truncated / bit-flipped / random / empty point bytes, or raw noise - over fragmenting and slow connections, closed before or after waiting for a reply. Each stream is served by the node's real connection handler on a watched goroutine (panic = node crash), then again through the real tcp.Mux and accept loop. Oracles: no panic; allocation growth while serving a stream <= documented 1 GiB frame limit (+slack); every point handed to the storage layer is a decodable point; the handler returns after the peer closed; after each stream a real lookup returns, after all of them a real write is served back; bubble deadlock (e.g. a leaked reference that blocks Store.Close). Round trips with generated values: write requests, create-iterator requests with generated iterator options, responses with errors, and points of all five types (tags with empty values, aux values of every kind incl. typed nils, nil points, extreme times/values) through the real IteratorEncoder, a fragmenting connection and the real ReaderIterator.",
  note="what a node answers to a damaged stream is not judged (after an unknown type byte it resynchronises on what follows; a stream may happen to be a legal administrative request such as remove-shard); join/leave cluster requests reach a stub Server; TLS is not used; allocation is observed through runtime.MemStats.TotalAlloc, so a bound violation smaller than the slack (256 MiB) is not seen",
  technique=SIM + ": recorded-corpus mutation and seeded hostile streams against the real connection handler in-process, fragmenting/slow simulated connections, encode/stream/decode round trips",
  ref="3 C15"),
 "C18": dict(
  text="A source store built by a seeded history (cache, files, tombstones, un-snapshotted cache) is backed up in full on the still open store (one run in three with an acknowledged write parked inside the backup's own cache snapshot), the stream restored with RestoreShard into a fresh store - the path a shard copy takes - and compared through both read paths, also after a restart of the destination; the source must be unchanged; 0-6 cuts of the stream (tar block boundaries, before the trailer, random offsets) are offered to RestoreShard and must not yield a 'successful' incomplete shard; a time-bounded export/import is compared with the model restricted to the range. RPC mode (1 run in 5): two real data nodes on the simulated network; node 1's shard is built by drawn writes with snapshot / compaction / delete steps, the real coordinator.Client sends a copy-shard request to node 2, which fetches the shard from node 1 with a backup-shard request over a connection that fragments, delays, resets or cleanly closes after a drawn number of bytes (or the source has no such shard); the request must return, a copy reported complete must read exactly like the source, and a copy that failed under the fault is retried over a healthy network: the retry must succeed and be faithful whatever the failed attempt left behind.",
  note="store mode: the network between source and destination is a buffer cut at seeded offsets; the meta handler adding the owner after a copy is not run; incremental (since) backups are not explored (file mtimes are real time, the simulation clock is fake); truncated-stream acceptance and the broken time-bounded export are listed known findings",
  technique=SIM + ": seeded source histories, window-level yield inside the backup's snapshot, stream-cut and simulated-network fault injection, LWW model comparison",
  ref="3 C18"),
 "C19": dict(
  text="The test binary is built with the race detector. A run starts 2-5 client goroutines at a barrier, each executing its plan-decided sequence of public operations on one shared object: (store) writes to own and shared series, reads, cache snapshots, compactions, deletes and drops of other series, conflicting writes of different types to new fields on one shard of a real tsdb.Store (inmem/tsi1); (handoff) concurrent writers into a real hinted-handoff NodeProcessor while its retry loop delivers on the simulated clock; (meta) the meta state machine applying 5-60 generated commands while snapshots are taken/persisted and readers copy the metadata; (pool) clients of the inter-node connection pool (get, use, return, mark unusable, double close, idle pruning on the simulated clock, pool close). Every operation is stamped with a global sequence number at invoke and return. Oracles: race detector reports; watchdog (clients that never finish = deadlock, with the blocked goroutines); panics and process crashes on goroutines of the code under test; a read contains every write acknowledged before it began and nothing never written; afterwards and after reopening every acknowledged write reads back; a field written with conflicting types holds one type; every handed-off point is delivered; a persisted metadata snapshot decodes and equals the state after some prefix of the commands; the pool never exceeds its bound, hands no connection to two clients or closed, leaks none. Deterministic windows through yield points place (a) a conflicting write between another write's field validation and its field creation / cache write, (b) a second field creation between a creator's lock-free lookup and its lock, (c) the close of the connection pool between a returning connection's is-the-pool-open check and its hand-over.",
  note="which goroutine runs when is the Go scheduler's decision: a seed fixes operations, order per client and pauses, not the interleaving (the window scenarios are deterministic); replays are attempted up to 20 times and race reports that arrive after a worker's last run are reported with the worker's race log as replay file; raft is replaced by one applier goroutine; the handoff target and pool connections are stubs; porcupine is not used - the oracles are per-series containment checks, which are linear, because every written value is unique",
  technique=SIM + ": seeded concurrent-client plans under the Go race detector, invoke/return-stamped histories checked against an acknowledged-writes model, deterministic window scheduling at yield points, simulated clock for retry/idle timers",
  ref="3 C19"),
}

NA = {
 "C12": "pure function of its input bytes (parser/encoder round trip): no schedule, clock, fault or interleaving for a simulator to decide; see DESIGN.md section 4",
}

man = {
 "version": 1,
 "setup_cmd": "cd /verif/sim && GOFLAGS=-mod=mod GOPROXY=off GOSUMDB=off GOTOOLCHAIN=local go1.26.8 build -tags verif ./... && GOFLAGS=-mod=mod GOPROXY=off GOSUMDB=off GOTOOLCHAIN=local go1.26.8 vet -tags verif ./core ./simdisk ./model",
 "hooks": {
  "guard": "verif (Go build tag; call sites additionally wrapped in `if verifhook.Enabled`)",
  "enable": "checks compile their test binary with `go1.26.8 test -c -tags verif` against /repo's working tree (harness module replace => /repo)",
  "baseline_off_cmd": "for m in $(cat /w/out/gomods.txt); do MF=$(cd /repo/$m && . /w/out/goenv.sh && gomodflag); (cd /repo/$m && go test $MF -json -vet=off -count=1 -timeout 25m ./...); done",
  "source_commits": json.load(open(os.path.join(VERIF, "hooks.json")))["source_commits"],
  "add_only": True,
 },
 "engines": [{"name": "verifsim", "path": "/verif/sim", "serves_properties": sorted(claimed),
              "kind_free_text": "deterministic simulation with fault injection: rapid-seeded plans (one seed decides everything, shrinking, replay files), testing/synctest fake time, SimDisk crash images cut at verifhook events, scripted fault spaces, small executable reference models"}],
 "checks": [],
 "not_applicable": [],
 "notes": "see DESIGN.md; ./check CNN --tier quick|thorough [--seed N]; ./check CNN --replay <dir>; exit 2 = build/harness trouble, never a violation; known_findings.json lists recorded and fixed defects",
}
for p in props:
    pid = p["id"]
    if pid in claimed and pid in checks:
        c = claimed[pid]
        man["checks"].append({
            "property_id": pid,
            "quick_cmd": "./check %s --tier quick" % pid,
            "thorough_cmd": "./check %s --tier thorough" % pid,
            "evidence_file": "/verif/evidence/%s.json" % pid,
            "replay_cmd_template": "./check %s --replay {path}" % pid,
            "engine": "verifsim",
            "level_claimed": {"category": "exploration", "text": c["text"], "design_ref": c["ref"]},
            "level_note": c["note"],
            "technique": c["technique"],
        })
    elif pid in NA:
        man["not_applicable"].append({"property_id": pid, "reason": NA[pid]})
    else:
        man["not_applicable"].append({"property_id": pid, "reason": "not claimed yet: its simulation harness is not built in the committed state (planned in DESIGN.md section 3)"})
json.dump(man, open(os.path.join(VERIF, "MANIFEST.json"), "w"), indent=1)
print("claimed:", [c["property_id"] for c in man["checks"]])
print("not claimed:", [c["property_id"] for c in man["not_applicable"]])
